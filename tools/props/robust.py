"""C19: Robust.tla <-> every parsing / validation entry point that faces untrusted input (harness/drivers/robust).

TLC enumerates (entry point x mutation operator x position class); the Go driver concretises every case at every member of
valid instances and runs it on the REAL entry point under recover() + deadline + state digest; the recorded call/reply traces
are validated by TLC against TraceRobust.tla (a lost reply = panic/hang violates Totality, reject with changed digest violates
RejectUnchanged)."""
import json, os, time
from concurrent.futures import ThreadPoolExecutor
from .. import vlib
from ..vlib import Report, Inconclusive

PROPS = ["C19"]
DRIVER = "robust"


def _cases(tier):
    g = vlib.tlc("MCRobust", "Robust.gen.cfg", workers=8, timeout=600)
    if not g.ok:
        raise Inconclusive("TLC case enumeration failed: %s %s\n%s" % (g.violation, g.error, g.raw[-1500:]))
    cases = []
    for b in g.printed:
        if len(b) != 1 or b[0].get("a") != "Call":
            continue
        c = b[0]
        cases.append(dict(id="%s|%s|%s" % (c["ep"], c["op"], c["pos"]), ep=c["ep"], op=c["op"], pos=c["pos"]))
    cases.sort(key=lambda c: c["id"])
    if len(cases) < 100:
        raise Inconclusive("TLC enumerated only %d cases" % len(cases))
    return g, cases


def _model(cfg, expect_violation=None, coverage=False):
    m = vlib.tlc("MCRobust", cfg, workers=8, timeout=900, coverage=coverage)
    if m.error:
        raise Inconclusive("TLC %s: %s\n%s" % (cfg, m.error, m.raw[-1500:]))
    if expect_violation:
        if m.violation != expect_violation:
            raise Inconclusive("vacuity guard: %s should violate %s but TLC reports %s" % (cfg, expect_violation, m.violation))
    elif m.violation:
        raise Inconclusive("model %s violates %s:\n%s" % (cfg, m.violation, m.raw[-2000:]))
    return dict(cfg=cfg, states=m.distinct, transitions=m.generated, depth=m.depth, wall_s=round(m.wall, 1),
                expected_violation=expect_violation, coverage=m.coverage)


def _sig(f):
    return dict(kind=f["kind"], entry=f["entry"], site=f["site"])


def _replay_obj(f):
    return dict(property="C19", signature=_sig(f), value=f.get("value"), stack=f.get("stack"),
                replay=dict(ep=f["entry"], input_b64=f["input_b64"], ctx=f.get("ctx"), desc=f.get("desc")))


# relative cost hints (measured ms per entry point in the quick tier); unknown entry points get the default
_WEIGHT = {"pe.PresentationDefinition": 6000, "revocation.StatusList2021": 9800, "discovery.Register": 7500, "pe.PresentationSubmission": 5900,
           "v2.TransactionSet": 3800, "v2.TransactionList": 3800, "iam.JAR": 2900, "didjwk.Resolve": 1700, "verifier.VerifyVP.jwt": 1500,
           "revocation.expand": 1800, "didkey.Resolve": 1500}
_NODE = ("verifier.", "discovery.", "iam.", "revocation.StatusList2021", "v2.")


def _shard(cases, n):
    """Greedy balancing. Entry points that need a whole node / a DAG stay together (one start per shard); the cases of the pure
    entry points may be spread. Cases that are expected to hit the deadline get a shard of their own weight."""
    groups = {}
    for c in cases:
        key = c["ep"] if c["ep"].startswith(_NODE) else c["ep"] + "|" + c["op"]
        groups.setdefault(key, []).append(c)
    def weight(key, cs):
        ep = cs[0]["ep"]
        w = _WEIGHT.get(ep, 800) * len(cs) / 40.0
        if ep == "pe.PresentationDefinition" and cs[0]["op"] == "unusual":
            w += 12000   # the catastrophic regular expressions run into the 5 s deadline
        return w
    shards = [[0.0, []] for _ in range(n)]
    for key in sorted(groups, key=lambda k: -weight(k, groups[k])):
        s = min(shards, key=lambda x: x[0])
        s[0] += weight(key, groups[key])
        s[1].extend(groups[key])
    return [s[1] for s in shards if s[1]]


def _run_cases(binary, cases, seed, level, random_n, max_per_case, shards=8, timeout=900):
    parts = _shard(cases, shards)

    def one(part):
        inp = dict(seed=seed, level=level, scripts=part, random=random_n, deadline_ms=5000, max_per_case=max_per_case)
        try:
            return vlib.run_driver(binary, inp, timeout=timeout)
        except Inconclusive:
            # e.g. the in-process node lost the race for a free TCP port against another check running on this machine
            return vlib.run_driver(binary, inp, timeout=timeout)
    with ThreadPoolExecutor(max_workers=len(parts)) as ex:
        outs = list(ex.map(one, parts))
    res = [r for o in outs for r in o]
    res.sort(key=lambda r: r["id"])
    return res


def _split_trace(tr):
    """Returns (clean events, list of (call event) that never got a reply)."""
    lost, out = [], []
    i = 0
    while i < len(tr):
        e = tr[i]
        if e["ev"] == "call":
            if i + 1 < len(tr) and tr[i + 1]["ev"] == "reply" and tr[i + 1]["id"] == e["id"]:
                out += [e, tr[i + 1]]
                i += 2
                continue
            lost.append(e)
            i += 1
            continue
        out.append(e)
        i += 1
    return out, lost


def run(prop, tier, seed, replay=None):
    t0 = time.time()
    rep = Report(prop)
    binary = vlib.build_driver(DRIVER)

    if replay:
        obj = json.load(open(replay))
        res = vlib.run_driver(binary, dict(seed=seed, level=0, scripts=[], replay=[obj["replay"]], deadline_ms=5000))
        for r in res:
            print(json.dumps(dict(id=r["id"], ep=r["ep"], outcome=(r.get("sample") or {}).get("desc"), error=r.get("error")))[:1500])
            if r.get("error"):
                rep.inconclusive.append(r["error"])
            for f in r["findings"]:
                print("  %s at %s: %s" % (f["kind"], f["site"], (f.get("value") or "")[:300]))
                if f.get("stack"):
                    print("  " + "\n  ".join(f["stack"].splitlines()[:24]))
                rep.violation(_sig(f), _replay_obj(f))
        return rep.finish()

    quick = tier == "quick"
    models = []
    phases = {}
    def mark(name, t=[time.time()]):
        phases[name] = round(time.time() - t[0], 1)
        t[0] = time.time()
    mark("build")
    # 1. the specification: the prescriptive model satisfies the properties; the deviating variant violates them (vacuity guard)
    models.append(_model("Robust.quick.cfg" if quick else "Robust.thorough.cfg", coverage=not quick))
    models.append(_model("Robust.deviant.cfg", expect_violation="RejectLeavesStore"))
    if not quick:
        models.append(_model("Robust.live.cfg"))
        cov = models[0]["coverage"]
        for a in ("Call", "Accept", "Reject"):
            if not cov.get(a):
                raise Inconclusive("vacuity: action %s never fired in %s" % (a, models[0]["cfg"]))
    # 2. TLC enumerates the cases
    g, cases = _cases(tier)
    models.append(dict(cfg="Robust.gen.cfg", states=g.distinct, transitions=g.generated, wall_s=round(g.wall, 1), cases=len(cases)))
    mark("tlc")
    # 3. the real code
    level = 0 if quick else 1
    random_n = 150 if quick else 16000
    results = _run_cases(binary, cases, seed, level, random_n, 0 if not quick else 400, shards=10, timeout=240 if quick else 840)
    if len(results) != len(cases):
        raise Inconclusive("driver returned %d results for %d cases" % (len(results), len(cases)))

    mark("driver")
    evaluations = sum(r["calls"] for r in results)
    nontrivial = [r for r in results if r["calls"] > 0]
    vacuous = [r["id"] for r in results if r["calls"] == 0 and not r.get("error")]
    errors = [r for r in results if r.get("error")]
    for r in errors[:5]:
        rep.inconclusive.append("case %s: %s" % (r["id"], r["error"][:300]))

    # 4. verdicts from the real observables: panic / hang / reject with changed state
    by_sig, n_findings = {}, 0
    for r in results:
        for f in r["findings"]:
            n_findings += 1
            k = json.dumps(_sig(f), sort_keys=True)
            by_sig.setdefault(k, []).append((r, f))
    # a missed deadline is confirmed by re-running the input alone (the machine may have been busy): still no reply => hang
    slow = 0
    for k in sorted(by_sig):
        r, f = by_sig[k][0]
        if f["kind"] != "hang":
            continue
        again = vlib.run_driver(binary, dict(seed=seed, level=level, scripts=[], replay=[_replay_obj(f)["replay"]], deadline_ms=5000), timeout=120)
        if not any(g["kind"] == "hang" for a in again for g in a["findings"]):
            slow += len(by_sig[k])
            rep.notes.append("NOTE: %s missed the 5 s deadline under load but replied when re-run alone (%s); not counted as a hang"
                             % (f["entry"], f["desc"][:120]))
            del by_sig[k]
    for k in sorted(by_sig):
        r, f = by_sig[k][0]
        rep.violation(_sig(f), _replay_obj(f))
        if len(by_sig[k]) > 1:
            r2, f2 = by_sig[k][-1]
            rep.violation(_sig(f2), _replay_obj(f2))

    # 5. trace validation by TLC: (a) everything that replied must be a behaviour of Robust (one batch);
    #    (b) one representative trace per distinct finding signature must be REJECTED with the matching invariant
    clean, lost_total = [], 0
    for r in results:
        tr, lost = _split_trace(r["trace"])
        lost_total += len(lost)
        if tr:
            clean.append(tr)
    changed_ids = set(f["call_id"] for r in results for f in r["findings"] if f["kind"] == "state-changed")
    clean_ok = []
    for tr in clean:
        clean_ok.append([e for e in tr if e["id"] not in changed_ids])
    nchunks = 6
    chunks = [clean_ok[i::nchunks] for i in range(nchunks)]
    chunks = [c for c in chunks if c]
    pool = ThreadPoolExecutor(max_workers=8)
    futs = [pool.submit(vlib.validate_traces, "TraceRobust", "Robust.trace.cfg", c, 900, 4000) for c in chunks]
    expected = {"panic": "invariant:Totality", "hang": "invariant:Totality", "state-changed": "invariant:RejectUnchanged"}
    reps = []
    for k in sorted(by_sig):
        r, f = by_sig[k][0]
        evs = [e for e in r["trace"] if e["id"] == f["call_id"]]
        reps.append((k, f, evs))

    def check(item):
        k, f, evs = item
        a, rj = vlib.validate_traces("TraceRobust", "Robust.trace.cfg", [evs], timeout=300)
        return k, f, a, rj
    # one representative per kind first, then further signatures up to 8 TLC runs (the check is the same for every lost call)
    seen_kind, first, rest = set(), [], []
    for it in reps:
        (first if it[1]["kind"] not in seen_kind else rest).append(it)
        seen_kind.add(it[1]["kind"])
    reps = (first + rest)[:8]
    rep_futs = [pool.submit(check, it) for it in reps]
    acc, rej = 0, []
    for ci, fu in enumerate(futs):
        a, rj = fu.result()
        acc += a
        for x in rj:
            x["index"] = x["index"] * nchunks + ci
        rej += rj
    for x in rej[:5]:
        if x["kind"].startswith("invariant:"):
            rep.violation(dict(kind="trace-" + x["kind"], entry=(x.get("event") or {}).get("ep", "?"), site="trace"),
                          dict(property=prop, rejected=x, trace=clean_ok[x["index"]][:50]))
        else:
            rep.notes.append("DRIFT: trace %d rejected at event %s (%s)" % (x["index"], json.dumps(x["event"])[:200], x["kind"]))
    if len(rej) > max(3, len(clean_ok) // 10):
        rep.inconclusive.append("%d of %d recorded traces are not behaviours of Robust.tla" % (len(rej), len(clean_ok)))

    confirmed = 0
    for k, f, a, rj in [fu.result() for fu in rep_futs]:
        want = expected.get(f["kind"])
        if a == 0 and rj and rj[0]["kind"] == want:
            confirmed += 1
        else:
            rep.inconclusive.append("binding: the trace of finding %s was not rejected with %s (got %s)" % (k, want, rj[:1] or "accepted"))
    pool.shutdown()

    mark("trace_validation")
    samples = []
    for r in nontrivial[:: max(1, len(nontrivial) // 12)][:12]:
        if r.get("sample"):
            samples.append(dict(case=r["id"], calls=r["calls"], accepted=r["accepted"], rejected=r["rejected"],
                                example=r["sample"]["desc"][:300], input_b64=r["sample"]["input_b64"][:400]))
    per_ep = {}
    for r in results:
        d = per_ep.setdefault(r["ep"], dict(cases=0, calls=0, accepted=0, rejected=0, findings=0))
        d["cases"] += 1 if r["calls"] else 0
        d["calls"] += r["calls"]
        d["accepted"] += r["accepted"]
        d["rejected"] += r["rejected"]
        d["findings"] += len(r["findings"])
    cov = dict(evaluations=evaluations, distinct_nontrivial=len(nontrivial),
               distinct_inputs=sum(r.get("distinct_inputs", 0) for r in results),
               rule="TLC enumerates every applicable (entry point, mutation operator, position class) case of Robust.tla (MCRobust.Applicable); "
                    "the Go concretiser applies the operator at EVERY member of that position class of every valid instance of the entry point "
                    "(plus hand written schema-valid-but-unusual inputs and seeded stacks of 2-4 random mutations for op=random) and runs the REAL "
                    "entry point under recover() + 5 s deadline + state digest. evaluations = concrete calls; distinct_nontrivial = number of "
                    "distinct (entry point, operator, position) cases for which at least one concrete input was executed (cases without any "
                    "member of that class in the valid instances are listed under vacuous_cases and not counted)",
               samples=samples, cases_enumerated_by_tlc=len(cases), vacuous_cases=len(vacuous), vacuous_sample=vacuous[:10],
               entry_points=len(per_ep), per_entry_point=per_ep, accepted=sum(r["accepted"] for r in results),
               rejected=sum(r["rejected"] for r in results), calls_without_reply=lost_total, findings=n_findings,
               distinct_finding_signatures=len(by_sig), finding_traces_rejected_by_tlc=confirmed,
               traces_validated_against_impl=acc + len(rej) + len(reps), traces_accepted=acc, traces_rejected=len(rej) + confirmed,
               slowest_call_us=max([r.get("max_us", 0) for r in results] or [0]),
               models=models, states=sum(m.get("states", 0) for m in models), transitions=sum(m.get("transitions", 0) for m in models),
               exhaustive=False, harness_errors=len(errors), phase_wall_s=phases, deadline_misses_not_confirmed=slow,
               calls_replied_after_deadline_within_grace=sum(r.get("slow_calls", 0) for r in results))
    vlib.write_evidence(prop, tier, seed, "exploration", cov, time.time() - t0, len(rep.violations),
                        ["the universal quantifier over all byte strings is SAMPLED through the enumerated structure-aware mutation classes "
                         "(type confusion, missing/null member, extreme numbers, truncation, duplicate member, empty, deep nesting, "
                         "hand-written unusual combinations, seeded random stacks); no claim outside those classes",
                         "termination is a per-call deadline (5 s, plus a 10 s grace period on a busy machine; a reported hang is re-run alone), not a proof",
                         "a panic in a goroutine spawned by the code under test would kill the driver (reported as inconclusive, exit 2)",
                         "resource exhaustion (memory) is not an oracle: a decompression bomb that terminates within the deadline counts as handled",
                         "reject => unchanged is checked on a state digest where a store exists: DAG content modulo well-formed transactions "
                         "(v2 handlers), all rows of the discovery / credential tables, all rows of status_list_credential",
                         "LD-proof presentations/credentials cannot be re-signed by the harness after mutation: for those the code behind the "
                         "signature check is reached through the JWT formats (signed by the harness over the mutated content) and with the "
                         "signature check switched off (verifier.Verify.ldp)",
                         "jwx, go-did, json-gold, protobuf and regexp2 are part of the executed code; defects in them count when reachable "
                         "through a repository entry point"])
    return rep.finish()
