"""C15: SyncPriv.tla <-> private payload handling of network/transport/v2 + grpc authenticator (real handlers, envelope monitor)."""
import json, random, time
from .. import vlib
from ..vlib import Report, Inconclusive

PROPS = ["C15"]


def run(prop, tier, seed, replay=None):
    t0 = time.time()
    rep = Report(prop)
    binary = vlib.build_driver("syncdrv")
    if replay:
        obj = json.load(open(replay))
        res = vlib.run_driver(binary, obj["input"], test=obj.get("test", "TestDriver"))
        for r in res:
            print(json.dumps({k: v for k, v in r.items() if k != "trace"})[:3000])
            for v in r["violations"]:
                if v["prop"] in (prop, "C19"):
                    rep.violation(dict(kind=v["kind"]), obj)
        return rep.finish()
    quick = tier == "quick"
    # 1. TLC enumerates the complete product of situations and checks confinement on the transcribed decision logic
    m = vlib.tlc("SyncPriv", "SyncPriv.cfg", workers=1, timeout=300)
    if m.error:
        raise Inconclusive("TLC: " + m.error)
    if m.violation:
        raise Inconclusive("model violates %s" % m.violation)
    # vacuity guard / deviation of the code (finding F28): with the payload store keyed by hash only, the alias peer class gets the payload
    dev = vlib.tlc("SyncPriv", "SyncPriv.dev.cfg", workers=1, timeout=300)
    if dev.error or dev.violation != "Confined2":
        raise Inconclusive("SyncPriv.dev.cfg (PayloadBoundToTx = FALSE) is expected to violate Confined2, got %s %s" % (dev.violation, dev.error))
    cases = [dict(id="case%03d" % i, steps=h) for i, h in enumerate(sorted(m.printed, key=lambda h: json.dumps(h, sort_keys=True)))]
    res = vlib.run_driver_parallel(binary, dict(scripts=cases), test="TestPriv", timeout=600)
    by_id = {c["id"]: c for c in cases}
    ndrift = 0
    samples = []
    distinct = set()
    for r in res:
        c = by_id[r["id"]]
        ndrift += len(r.get("drift") or [])
        for d in (r.get("drift") or [])[:2]:
            rep.notes.append("DRIFT: " + d)
        if r.get("error"):
            rep.inconclusive.append("case %s: %s" % (r["id"], r["error"]))
        distinct.add(json.dumps(c["steps"], sort_keys=True))
        for v in r["violations"]:
            sig = dict(kind=v["kind"])
            if v["prop"] == "C19":
                sig = dict(kind="panic", case=c["steps"][0].get("a"), key=c["steps"][0].get("key", c["steps"][0].get("incoming")))
            rep.violation(sig, dict(property=prop, violation=v, test="TestPriv", input=dict(scripts=[c])))
        if len(samples) < 4 and r.get("trace"):
            samples.append(dict(case=c["steps"][0], observed=r.get("observed"), real=r["trace"]))
    # 2. whole-network runs: participants A, B; authenticated outsider C; unauthenticated D; monitor on EVERY envelope
    rnd = random.Random(seed)
    nets = []
    for i in range(6 if quick else 40):
        nets.append(dict(id="privnet-%d" % i, seed=seed * 100 + i, priv=True, budget=rnd.choice([30, 80, 200]), loss=rnd.choice([0, 1, 3]),
                         dup=rnd.choice([0, 1, 2]), expire=rnd.choice([0, 1, 2])))
    inp = dict(nodes=["A", "B", "C", "D"], links=[["A", "B"], ["A", "C"], ["B", "C"], ["A", "D", "unauth"], ["B", "D", "unauth"]], scripts=nets, rounds=40)
    nres = vlib.run_driver_parallel(binary, inp, timeout=600, shards=min(len(nets), vlib.NCPU))
    sent = delivered = 0
    for r in nres:
        delivered += r.get("delivered", 0)
        sent += (r.get("paths") or {}).get("private-payload-sent", 0)
        if r.get("error"):
            rep.inconclusive.append("net %s: %s" % (r["id"], r["error"]))
        for d in (r.get("drift") or [])[:1]:
            rep.notes.append("DRIFT: " + d)
        for v in r["violations"]:
            if v["prop"] in ("C15", "C19"):
                sc = [n for n in nets if n["id"] == r["id"]]
                rep.violation(dict(kind=v["kind"]), dict(property=prop, violation=v, test="TestDriver", input=dict(inp, scripts=sc)))
    if sent == 0 and not rep.violations:
        rep.inconclusive.append("no private payload was ever transferred in the network runs (vacuous)")
    cov = dict(states=m.distinct, transitions=m.generated, traces_validated_against_impl=len(res) + len(nres),
               samples=samples, cases_enumerated_by_tlc=len(cases), distinct_cases=len(distinct), network_runs=len(nres),
               envelopes_monitored=delivered, private_payload_transfers_observed=sent, drift=ndrift, exhaustive=True,
               rule="TLC enumerates peer class x holder key situation x transaction class x request kind (+ incoming payload classes, + TLS "
                    "authentication cases); every case runs on a real v2 protocol instance over a real dag.State with real ECIES-encrypted PALs; "
                    "all envelopes handed to Connection.Send are scanned for the private payload bytes; 4-node networks (2 participants, an "
                    "authenticated outsider, an unauthenticated peer) run full reconciliation + payload retrieval under random schedules with the same monitor")
    vlib.write_evidence(prop, tier, seed, "model_checking", cov, time.time() - t0, len(rep.violations),
                        ["crypto.Decrypter and DID/key resolution are scripted at their interfaces (real ECIES, real PAL format)",
                         "honest creators: the encrypted recipient set equals the plaintext participant list"])
    return rep.finish()
