"""X08 (extension): Heal.tla <-> xorTreeRepair (network/dag/consistency.go) + its trigger in v2 handleGossip."""
import json, os, random, re, time
from .. import vlib
from ..vlib import Report, Inconclusive

PROPS = ["X08"]


def cfg_of(cfg):
    txt = open(os.path.join(vlib.SPEC, "cfg", cfg)).read()
    nodes = re.findall(r'"(\w+)"', re.search(r"Node = \{(.*?)\}", txt).group(1))
    last = int(re.search(r"LastPage = (\d+)", txt).group(1))
    links = [[a, b] for a, b in (("A", "B"), ("B", "C")) if a in nodes and b in nodes]
    return nodes, links, last


def run(prop, tier, seed, replay=None):
    t0 = time.time()
    rep = Report(prop)
    binary = vlib.build_driver("syncdrv")
    if replay:
        obj = json.load(open(replay))
        res = vlib.run_driver(binary, obj["input"], test="TestHeal")
        for r in res:
            print(json.dumps({k: v for k, v in r.items() if k != "trace"})[:3000])
            for v in r["violations"]:
                rep.violation(dict(kind=v["kind"]), obj)
        return rep.finish()
    quick = tier == "quick"
    rnd = random.Random(seed)
    models = []
    states = transitions = 0
    # 1. the design: safety exhaustively, healing and calming down under fairness; deviations must be visible
    runs = [("Heal.safety.quick.cfg", None), ("Heal.live.cfg", None), ("Heal.live.calm.cfg", None), ("Heal.dev.noreset.cfg", "Calms"),
            ("Heal.dev.quiet.cfg", "Calms"), ("Heal.dev.alwaysrepair.cfg", "CursorInOrder")]
    if not quick:
        runs += [("Heal.safety.thorough.cfg", None), ("Heal.live3.cfg", None), ("Heal.live3.calm.cfg", None)]
    cover = {}
    for cfg, expect in runs:
        m = vlib.tlc("MCHeal", cfg, timeout=1500, workers=min(8, vlib.NCPU), coverage=(cfg == "Heal.safety.quick.cfg"))
        if m.error and not m.violation:
            raise Inconclusive("TLC %s: %s" % (cfg, m.error))
        if expect is None and m.violation:
            raise Inconclusive("model %s violates %s:\n%s" % (cfg, m.violation, m.raw[-2000:]))
        if expect is not None and m.violation != expect:
            raise Inconclusive("vacuity guard %s: expected a violation of %s, got %s" % (cfg, expect, m.violation))
        states += m.distinct
        transitions += m.generated
        cover.update(m.coverage)
        models.append(dict(cfg=cfg, states=m.distinct, transitions=m.generated, wall_s=round(m.wall, 1),
                           expected_violation=expect or ""))
    missing = [a for a in ("Corrupt", "GossipTick", "Announce", "DoHandle", "DoLose", "RepairTick") if not cover.get(a)]
    if missing:
        raise Inconclusive("actions never taken in Heal.safety.quick.cfg: %s" % missing)
    # 2. behaviours of the model -> real nodes
    fams = [("Heal.gen.cfg", "Heal.trace.cfg", 150 if quick else 1500), ("Heal.gen3.cfg", "Heal.trace.cfg", 100 if quick else 1500)]
    if not quick:
        fams.append(("Heal.gen.p3.cfg", "Heal.trace.p3.cfg", 1000))
    results, scripts_by_id = [], {}
    acc = nrej = 0
    n_wit = 0
    for gen_cfg, trace_cfg, n in fams:
        g = vlib.tlc("MCHeal", gen_cfg, timeout=1500, workers=min(8, vlib.NCPU))
        if not g.ok:
            raise Inconclusive("generation %s failed: %s %s" % (gen_cfg, g.violation, g.error))
        wit = sorted(g.printed, key=lambda b: json.dumps(b, sort_keys=True))
        n_wit += len(wit)
        rnd.shuffle(wit)
        # prefer behaviours in which something was corrupted AND a repair ran, then fill up
        rich = [b for b in wit if any(s["a"] == "RepairTick" and s.get("ran") for s in b)]
        rest = [b for b in wit if b not in rich[: n]] if len(rich) < n else []
        chosen = (rich + rest)[:n]
        sim = vlib.tlc("MCHeal", gen_cfg, workers=1, simulate="num=%d" % (60 if quick else 400), depth=26, seed=seed, timeout=600)
        chosen += vlib.dedupe_maximal(sim.printed)[: (40 if quick else 300)]
        nodes, links, last = cfg_of(gen_cfg)
        fam = gen_cfg.replace("Heal.", "").replace(".cfg", "")
        scripts = [dict(id="%s-%04d" % (fam, i), steps=b) for i, b in enumerate(chosen)]
        inp = dict(nodes=nodes, links=links, last_page=last, scripts=scripts)
        rs = vlib.run_driver_parallel(binary, inp, test="TestHeal", timeout=900)
        for r in rs:
            r["input"] = dict(inp, scripts=None)
        results += rs
        for s in scripts:
            scripts_by_id[s["id"]] = s
        tr = [r["trace"] for r in rs if r.get("trace") and not r.get("error")]
        a, rej = vlib.validate_traces("TraceHeal", trace_cfg, tr, timeout=900)
        acc += a
        nrej += len(rej)
        for x in rej[:3]:
            rep.notes.append("DRIFT: %s trace %d rejected at event %s (%s)" % (fam, x["index"], json.dumps(x["event"])[:200], x["kind"]))
            if os.environ.get("VERIF_DUMP_REJ"):
                json.dump(dict(rejected=x, trace=tr[x["index"]]), open(os.path.join(os.environ["VERIF_DUMP_REJ"], "rej-%s-%s-%d.json" % (prop, fam, x["index"])), "w"), indent=1)
        for x in rej:
            if x["kind"].startswith("invariant:") or x["kind"].startswith("property:"):
                rep.violation(dict(kind="trace-" + x["kind"]), dict(property=prop, trace=tr[x["index"]], rejected=x))
    checks = repairs = fixed = gossips = ndrift = ninc = 0
    samples = []
    for r in results:
        checks += r.get("checks", 0)
        repairs += r.get("repairs", 0)
        fixed += r.get("fixed", 0)
        gossips += r.get("gossips", 0)
        ndrift += len(r.get("drift") or [])
        sc = scripts_by_id[r["id"]]
        if r.get("error"):
            ninc += 1
            rep.inconclusive.append("script %s: %s" % (r["id"], r["error"]))
        for v in r["violations"]:
            rep.violation(dict(kind=v["kind"]), dict(property=prop, violation=v, test="TestHeal", input=dict(r["input"], scripts=[sc])))
        if len(samples) < 2 and len(r.get("trace") or []) > 8:
            samples.append(dict(script=sc["steps"], real_trace=r["trace"][:20]))
    if ninc <= max(1, len(results) // 50):
        rep.inconclusive = []
    if fixed == 0 and not rep.violations:
        rep.inconclusive.append("no corrupted leaf was ever repaired on the real code (vacuous)")
    if nrej > max(3, (acc + nrej) // 5) and not rep.violations:
        rep.inconclusive.append("%d of %d recorded traces are not behaviours of Heal.tla (spec/code drift)" % (nrej, acc + nrej))
    if ndrift > len(results):
        rep.notes.append("DRIFT: %d scripted steps had no counterpart on the real nodes" % ndrift)
    cov = dict(states=states, transitions=transitions, traces_validated_against_impl=acc + nrej, traces_accepted=acc, traces_rejected=nrej,
               samples=samples or [next(iter(scripts_by_id.values()))], models=models, behaviours_replayed_on_real_code=len(results),
               witness_behaviours_available=n_wit, oracle_evaluations=checks, real_repair_rounds=repairs, leaves_restored_by_real_repair=fixed,
               real_gossip_messages_handled=gossips, drift_steps=ndrift, action_coverage=cover, exhaustive=False,
               rule="TLC checks RepairLocal, CursorInOrder, RisesOnlyOnMismatch exhaustively and Heals / Calms under fairness (Heals without, Calms with refreshed announcements; three deviation / observation configs must fail); "
                    "witness and simulated behaviours are replayed on 2-3 real v2 protocol instances over real dag.States holding the same multi-page DAG: XOR leaves "
                    "corrupted through a shim, real gossip ticks, real handleGossip (+ the State / TransactionSet exchange it triggers), the real checkPage as the ticker "
                    "calls it; after every step: circuit reset on an equal XOR / raised on a mismatch, a repair round changes nothing unless red, only the leaf under "
                    "the cursor and only to the recomputed value, transactions untouched; after a fault-free suffix every leaf is right and the circuits are calm; "
                    "every recorded trace is validated by TLC against TraceHeal.tla")
    vlib.write_evidence(prop, tier, seed, "model_checking", cov, time.time() - t0, len(rep.violations),
                        ["nodes hold the same transactions (reconciliation is Sync.tla / C07)", "corruption = a garbage value XORed into a leaf in memory and on disk",
                         "distinct nodes never carry the same garbage", "the 10 s ticker is fired by the script"])
    return rep.finish()
