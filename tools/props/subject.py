"""C13: Subject.tla <-> vdr/didsubject.SqlManager (+ real didweb/didnuts managers, sqlite, didstore, ambassador, key store).

TLC proves the C13 invariants for the prescriptive design, enumerates the fault schedules (a failure or a stop at every
step boundary of every operation, sweep before/after the minute, both method orders) from the descriptive model, every
chosen behaviour is replayed on the real code, the statement is evaluated on the real observables by the Go oracle, and
every recorded real trace is validated by TLC against TraceSubject.tla."""
import json, os, random, time
from .. import vlib
from ..vlib import Report, Inconclusive

PROPS = ["C13"]

# (kind, site) pairs of oracle violations that are explained by one named deviation of the code (= one known finding).
# Anything else keeps the class "unclassified" and fails the run.
CLASSES = {
    "sweep-aborted-on-unpublished-create": dict(
        site="sweep-aborted:iscommitted-not-found:nuts",
        kinds={"log-left-after-sweep", "unpublished-version-after-sweep", "retry-fails"}),
    "abandoned-create-leaves-did-rows": dict(
        site="did-rows-without-documents",
        kinds={"retry-fails"}),
    "operation-builds-on-pending-version": dict(
        site="op-started-on-pending-change",
        kinds={"version-gap", "abandoned-key-published", "abandoned-but-published", "retry-fails"}),
    "update-of-deactivated-subject": dict(
        site="update-of-deactivated-subject",
        kinds={"success-but-unpublished", "unpublished-version-after-sweep"}),
    # concurrent requests: the first transaction of a request ran while another request on the same subject was between
    # its first and its clean-up transaction (no mutual exclusion per subject)
    "concurrent-requests-interleave": dict(
        site="concurrent-request-on-pending-change",
        kinds={"success-but-unpublished", "unpublished-version-after-sweep", "version-gap", "abandoned-key-published",
               "abandoned-but-published", "retry-fails"}),
}


def classify(v):
    """The driver reports every observed circumstance that may explain the violation ("|"-separated). The violation is
    known iff one (circumstance, kind) pair belongs to the class of an OPEN finding; a pair of a repaired class explains
    nothing any more (the violation is then reported under that class and fails the run)."""
    found = []
    for site in v["site"].split("|"):
        for name, c in CLASSES.items():
            if site == c["site"] and v["kind"] in c["kinds"]:
                found.append(name)
    for name in found:
        if vlib.match_known(PROPS[0], {"class": name}):
            return name
    return found[0] if found else "unclassified"


def to_steps(hist):
    """Projects a TLC behaviour (sequence of action records) to the environment script of the driver.
    A busy period with one request becomes a sequential "op" step (fault script: network answer, stop position, method
    order); a busy period in which requests overlap becomes a "conc" step: the requests per goroutine and the schedule
    (one entry per critical section, in the order of the behaviour)."""
    steps = []
    group = None      # current busy period: dict(ops=[...], sched=[...], active={p: op}, single=<seq step or None>)

    def close():
        nonlocal group
        if group is None:
            return
        if len(group["ops"]) == 1 and group["stop"] is not None or len(group["ops"]) == 1:
            o = group["ops"][0]
            steps.append(dict(a="op", op=o["op"], s=o["s"], net=o["net"], stop=group["stop"] if group["stop"] is not None else -1,
                              order=o["order"]))
        else:
            steps.append(dict(a="conc", stop=-1, sched=group["sched"],
                              ops=[dict(p=o["p"], op=o["op"], s=o["s"], net=o["net"]) for o in group["ops"]]))
        group = None

    for h in hist:
        a = h["a"]
        p = h.get("p", "p1")
        if a == "Config":
            continue      # the configuration of the behaviour: see config_of
        if a in ("Tx1", "Check"):
            if group is None:
                group = dict(ops=[], sched=[], active={}, stop=None)
            if p not in group["active"]:
                o = dict(p=p, op=h["op"], s=h["s"], net="ok", order=[])
                group["ops"].append(o)
                group["active"][p] = o
            group["sched"].append(p)
            if a == "Tx1" and h["out"] != "changed":
                del group["active"][p]
        elif a == "Commit":
            o = group["active"][p]
            o["order"].append(h["m"])
            if h["m"] == "nuts" and h.get("inj"):
                o["net"] = "fail"
            group["sched"].append(p)
        elif a == "Tx2":
            group["sched"].append(p)
            del group["active"][p]
        elif a == "Stop":
            group["stop"] = h["after"]
            group["active"] = {}
        elif a == "Tick":
            close()
            steps.append(dict(a="tick", stop=-1))
        elif a == "Sweep":
            close()
            steps.append(dict(a="sweep", stop=-1))
        if group is not None and not group["active"]:
            close()
    close()
    # the tail (forced Tick, forced Sweep, repetitions): operations after the last sweep that follows the last tick
    last_sweep = max([i for i, s in enumerate(steps) if s["a"] == "sweep"], default=None)
    if last_sweep is not None:
        for s in steps[last_sweep + 1:]:
            if s["a"] == "op":
                s["retry"] = True
    for s in steps:
        if s["a"] == "op":
            rest = [m for m in ("nuts", "web") if m not in s["order"]]
            s["order"] = (s["order"] + rest)[:2]
    return steps


def config_of(hist):
    """The configuration a behaviour was generated for (first record of the history): enabled DID methods of the node in
    preferred order and the way Create names the subject."""
    for h in hist:
        if h["a"] == "Config":
            return dict(methods=[m for m in ("web", "nuts") if m in h["ms"]], naming=h["nm"])
    return dict(methods=["web", "nuts"], naming="given")


def cfg_tag(c):
    return "%s/%s" % ("+".join(c["methods"]), c["naming"])


def canonical(hist):
    """Renames the request goroutines in order of appearance (p1/p2 are symmetric)."""
    ren = {}
    out = []
    for h in hist:
        if "p" in h:
            ren.setdefault(h["p"], "p%d" % (len(ren) + 1))
            h = dict(h, p=ren[h["p"]])
        out.append(h)
    return out


def shape(steps):
    """Coarse class of a script (diversity buckets for sampling)."""
    out = []
    for s in steps:
        if s["a"] == "op":
            out.append("%s/%s/%s/%s" % (s["op"], s["net"], s["stop"], s["order"][0] if s["stop"] == 1 else ""))
        elif s["a"] == "conc":
            out.append("conc:" + "+".join(sorted("%s/%s" % (o["op"], o["net"]) for o in s["ops"])))
        else:
            out.append(s["a"][0])
    return " ".join(out)


def conc_behaviours(cfg, timeout=900):
    """All interleavings of two overlapping requests (after a sequential set-up) from the descriptive model."""
    g, beh = generate(cfg, timeout=timeout)
    seen, out = set(), []
    for b in beh:
        st = to_steps(canonical(b))
        if not any(x["a"] == "conc" for x in st):
            continue
        k = json.dumps(st, sort_keys=True)
        if k not in seen:
            seen.add(k)
            out.append(st)
    return g, out


def pick_conc(scripts, n, rnd):
    """Round robin over (set-up, pair of overlapping operations) buckets; within a bucket random interleavings."""
    buckets = {}
    for st in scripts:
        buckets.setdefault(shape(st), []).append(st)
    keys = sorted(buckets)
    rnd.shuffle(keys)
    for k in keys:
        rnd.shuffle(buckets[k])
    chosen = []
    while len(chosen) < n and keys:
        for k in list(keys):
            if buckets[k]:
                chosen.append(buckets[k].pop())
                if len(chosen) >= n:
                    break
            else:
                keys.remove(k)
    return chosen


def generate(cfg, timeout=900, workers=8):
    g = vlib.tlc("MCSubject", cfg, workers=workers, timeout=timeout)
    if not g.ok:
        raise Inconclusive("generation run %s failed: %s %s" % (cfg, g.violation, g.error))
    beh = sorted(g.printed, key=lambda b: json.dumps(b, sort_keys=True))
    return g, beh


def pick(behaviours, n, rnd):
    """At most n behaviours (as scripts without id), round robin over (configuration, shape) buckets (every bucket first)."""
    buckets = {}
    for b in behaviours:
        st = to_steps(b)
        c = config_of(b)
        # bucket: configuration + multiset of per-step classes (op, fault, cut) -- keeps rare fault combinations
        key = (cfg_tag(c),) + tuple(sorted(set(shape([s]) for s in st)))
        buckets.setdefault(key, []).append(dict(steps=st, **c))
    keys = sorted(buckets)
    rnd.shuffle(keys)
    for k in keys:
        rnd.shuffle(buckets[k])
    chosen = []
    while len(chosen) < n and keys:
        for k in list(keys):
            if buckets[k]:
                chosen.append(buckets[k].pop())
                if len(chosen) >= n:
                    break
            else:
                keys.remove(k)
    return chosen


def hand_scripts():
    """Fixed regression scripts: the four known deviations in their minimal form + the plain life cycle."""
    op = lambda o, s="s1", net="ok", stop=-1, order=("nuts", "web"), retry=False: dict(
        a="op", op=o, s=s, net=net, stop=stop, order=list(order), **({"retry": True} if retry else {}))
    T, S = dict(a="tick", stop=-1), dict(a="sweep", stop=-1)
    return [
        dict(id="hand-lifecycle", steps=[op("create"), op("addSvc"), op("addSvc"), op("updSvc"), op("delSvc"), op("addKey"),
                                          op("deactivate"), T, S]),
        dict(id="hand-F8", steps=[op("create", stop=0), S, T, S, op("create", retry=True)]),
        dict(id="hand-create-net-fail", steps=[op("create", net="fail"), T, S, op("create", retry=True)]),
        dict(id="hand-pending-gap", steps=[op("create"), op("addSvc", stop=0), S, op("addKey"), T, S, op("addSvc", retry=True)]),
        dict(id="hand-update-deactivated", steps=[op("create"), op("deactivate"), op("addKey"), T, S]),
        dict(id="hand-update-stop-each", steps=[op("create"), op("addKey", stop=0), T, S, op("addKey", stop=1, order=("web", "nuts")), T, S,
                                                 op("addKey", stop=1, order=("nuts", "web")), T, S, op("addKey", stop=2), T, S,
                                                 op("addKey", net="fail"), T, S, op("addKey", retry=True)]),
        dict(id="hand-conc-create-create", steps=[dict(a="conc", stop=-1, sched=["p1", "p2", "p1", "p2"], ops=[
            dict(p="p1", op="create", s="s1", net="ok"), dict(p="p2", op="create", s="s1", net="ok")]), T, S]),
        dict(id="hand-conc-update-update", steps=[op("create"), dict(a="conc", stop=-1, sched=["p1", "p2", "p1", "p2", "p2", "p2", "p1", "p1"], ops=[
            dict(p="p1", op="addKey", s="s1", net="ok"), dict(p="p2", op="addSvc", s="s1", net="ok")]), T, S]),
        dict(id="hand-two-subjects-blocked", steps=[op("create", s="s2"), op("create", s="s1", stop=0), op("addKey", s="s2", stop=0), T, S,
                                                     op("addKey", s="s2", retry=True)]),
        # other node configurations / input classes of Create: the life cycle and a stop at every boundary of an update
        dict(id="hand-nuts-only", methods=["nuts"], naming="given",
             steps=[op("create", stop=0), T, S, op("create", retry=True), op("addSvc"), op("addKey", stop=0), T, S, op("addKey", stop=1), T, S,
                    op("addKey", net="fail"), T, S, op("addKey", retry=True), op("deactivate"), T, S]),
        dict(id="hand-web-only", methods=["web"], naming="given",
             steps=[op("create", stop=0), T, S, op("addSvc"), op("addKey", stop=0), T, S, op("addKey", stop=1), T, S, op("deactivate"), T, S]),
        dict(id="hand-legacy-name", methods=["web", "nuts"], naming="legacy",
             steps=[op("create"), op("addSvc"), op("updSvc"), op("addKey", stop=1), T, S, op("addKey", retry=True), op("deactivate"), T, S]),
        dict(id="hand-legacy-name-faults", methods=["web", "nuts"], naming="legacy",
             steps=[op("create", net="fail"), T, S, op("create", stop=2), T, S, op("addKey"), op("addSvc"), T, S]),
        dict(id="hand-generated-name", methods=["web", "nuts"], naming="generated",
             steps=[op("create", stop=0), T, S, op("create", retry=True), op("addSvc"), op("deactivate"), T, S]),
    ]


def run_scripts(binary, scripts, subjects, mutate=None, shards=8):
    inp = dict(subjects=subjects, scripts=scripts, attempts=6)
    if mutate:
        inp["mutate"] = mutate
    return vlib.run_driver_parallel(binary, inp, shards=shards, timeout=2400)


def validate_bounded(traces, canary_only=False, canary=30, chunk=100, max_rej=12):
    """vlib.validate_traces re-runs TLC twice per rejected trace; a mass drift (e.g. a changed code path) must not
    cost hours: a random canary batch first, then chunks until max_rej rejections."""
    acc, rej = vlib.validate_traces("TraceSubject", "Subject.trace.cfg", traces[:canary], timeout=600, batch=canary)
    done = min(canary, len(traces))
    if canary_only:
        return acc, rej, done, "oracle violations already decide the run"
    if len(rej) > canary // 10:
        return acc, rej, done, "more than 10% of the canary batch rejected"
    from concurrent.futures import ThreadPoolExecutor
    starts = list(range(done, len(traces), chunk))

    def one(st):
        a, r = vlib.validate_traces("TraceSubject", "Subject.trace.cfg", traces[st:st + chunk], timeout=900, batch=chunk)
        for x in r:
            x["index"] += st
        return a, r
    # waves of 4 single-worker TLC runs; stop after a wave that brings the rejections over max_rej
    for w in range(0, len(starts), 4):
        with ThreadPoolExecutor(max_workers=4) as ex:
            outs = list(ex.map(one, starts[w:w + 4]))
        for a, r in outs:
            acc, rej = acc + a, rej + r
        done = min(len(traces), starts[min(w + 4, len(starts)) - 1] + chunk)
        if len(rej) >= max_rej and done < len(traces):
            return acc, rej, done, "%d rejections" % len(rej)
    return acc, rej, len(traces), None


def judge(rep, prop, results, by_id, subjects):
    counts = {}
    for r in results:
        for v in r["violations"]:
            cls = classify(v)
            counts[cls] = counts.get(cls, 0) + 1
            sig = dict(kind=v["kind"], site=v["site"], **{"class": cls})
            if cls != "unclassified":
                sig = {"class": cls}
            rep.violation(sig, dict(property=prop, violation=v, input=dict(subjects=subjects, scripts=[by_id[r["id"]]])))
    return counts


def run(prop, tier, seed, replay=None):
    t0 = time.time()
    rep = Report(prop)
    binary = vlib.build_driver("subject")
    if replay:
        obj = json.load(open(replay))
        res = vlib.run_driver(binary, dict(obj["input"], attempts=6))
        by_id = {s["id"]: s for s in obj["input"]["scripts"]}
        for r in res:
            print(json.dumps(dict(r, trace=r.get("trace", [])[-6:]))[:4000])
        judge(rep, prop, res, by_id, obj["input"]["subjects"])
        return rep.finish()

    quick = tier == "quick"
    rnd = random.Random(seed)
    models, cover = [], {}
    states = transitions = 0

    # 1. the prescriptive design (all deviation constants off) satisfies every C13 invariant -- exhaustive
    cfgs = ["Subject.presc.quick.cfg", "Subject.conc.presc.cfg"]
    if not quick:
        cfgs.append("Subject.presc.thorough.cfg")
        cfgs.append("Subject.presc.configs.cfg")
    for cfg in cfgs:
        m = vlib.tlc("MCSubject", cfg, workers=8, timeout=1500, coverage=(not quick and cfg.endswith("quick.cfg")))
        if m.error:
            raise Inconclusive("TLC %s: %s" % (cfg, m.error))
        if m.violation:
            raise Inconclusive("prescriptive model %s violates %s:\n%s" % (cfg, m.violation, m.raw[-3000:]))
        states += m.distinct
        transitions += m.generated
        cover.update(m.coverage)
        if m.coverage:
            dead = [a for a in ("Tx1", "CommitMethod", "Tx2", "Stop", "Tick", "Sweep", "TailTick", "TailSweep", "TailSkip") if not m.coverage.get(a)]
            if dead:
                raise Inconclusive("vacuity: actions never fire in %s: %s" % (cfg, dead))
        models.append(dict(cfg=cfg, states=m.distinct, transitions=m.generated, depth=m.depth, wall_s=round(m.wall, 1), result="all invariants hold"))
    # 1b. vacuity guard: each deviation of the code, switched on alone, violates an invariant in the model
    expected = {"SweepAbortsOnUnpublishedCreate": "NoLogLeft", "AbandonKeepsDidRows": "RetryCanSucceed",
                "OpsBuildOnPending": "VersionsConsecutiveAndGrow", "UpdatesDeactivated": "AllOrNothingAfterSweep",
                "CheckOutsideTx": "SubjectHasOneDidSet", "RenameWhileStoring": "SubjectHasOneDidSet",
                "LogOnlyMultiChange": "AllOrNothingAfterSweep"}
    for dev, inv in sorted(expected.items()):
        m = vlib.tlc("MCSubject", "Subject.dev.%s.cfg" % dev, workers=4, timeout=600)
        if m.error:
            raise Inconclusive("TLC dev.%s: %s" % (dev, m.error))
        if m.violation is None:
            raise Inconclusive("vacuity guard: deviation %s alone violates no invariant of the model" % dev)
        models.append(dict(cfg="Subject.dev.%s.cfg" % dev, states=m.distinct, transitions=m.generated, result="violates " + m.violation))

    # 2. fault enumeration: behaviours of the descriptive model (= the code as it is)
    subjects = ["s1", "s2"]
    gens = [("Subject.genall.cfg", None), ("Subject.gen.quick.cfg", 350 if quick else None),
            # the other node configurations (one enabled DID method) and input classes of Create (legacy / generated names)
            ("Subject.gen.configs.cfg", 260 if quick else None)]
    if not quick:
        gens.append(("Subject.gen.thorough.cfg", 2500))
        gens.append(("Subject.gen.configs.thorough.cfg", 1500))
    scripts, n_beh = hand_scripts(), 0
    for cfg, cap in gens:
        g, beh = generate(cfg, timeout=1500)
        n_beh += len(beh)
        states += g.distinct
        transitions += g.generated
        models.append(dict(cfg=cfg, states=g.distinct, transitions=g.generated, behaviours=len(beh)))
        if cfg == "Subject.genall.cfg" and quick:
            cap = 550
        chosen = pick(beh, cap or len(beh), rnd)
        tag = cfg.split(".")[1] + ("C" if ".configs." in cfg else "") + ("T" if "thorough" in cfg else "")
        scripts += [dict(sc, id="%s-%05d" % (tag, i)) for i, sc in enumerate(chosen)]
    # 2b. concurrent requests: ALL interleavings of the critical sections of two overlapping requests (after a
    # sequential set-up); thorough adds the interleavings with one injected network failure
    concs = [("Subject.conc.genall0.cfg", 260 if quick else None)]
    if not quick:
        concs.append(("Subject.conc.genall.cfg", 1200))
    n_conc = 0
    for cfg, cap in concs:
        g, cs = conc_behaviours(cfg, timeout=1500)
        n_beh += len(cs)
        states += g.distinct
        transitions += g.generated
        models.append(dict(cfg=cfg, states=g.distinct, transitions=g.generated, interleavings_of_overlapping_requests=len(cs)))
        chosen = pick_conc(cs, cap or len(cs), rnd)
        tag = "conc" + ("F" if cfg.endswith("genall.cfg") else "")
        have = set(json.dumps(x["steps"], sort_keys=True) for x in scripts)
        for i, st in enumerate(chosen):
            if json.dumps(st, sort_keys=True) not in have:
                scripts.append(dict(id="%s-%05d" % (tag, i), steps=st))
                n_conc += 1
    by_id = {s["id"]: s for s in scripts}

    phases = {"tlc_s": round(time.time() - t0, 1)}
    # 3. replay on the real code
    t1 = time.time()
    results = run_scripts(binary, scripts, subjects)
    if len(results) != len(scripts):
        raise Inconclusive("driver returned %d results for %d scripts" % (len(results), len(scripts)))
    nerr = 0
    for r in results:
        if r.get("error"):
            nerr += 1
            rep.inconclusive.append("script %s: %s" % (r["id"], r["error"]))
    if nerr <= max(2, len(results) // 500):
        # a few scripts lost to the harness (e.g. a scheduler wait exceeded on an overloaded machine) do not decide the run
        for x in rep.inconclusive[:3]:
            rep.notes.append("NOTE: " + x[:300])
        rep.inconclusive = []
    counts = judge(rep, prop, results, by_id, subjects)

    phases["replay_s"] = round(time.time() - t1, 1)
    t1 = time.time()
    # 4. recorded traces of the real code are validated by TLC against the specification
    traces = [r["trace"] for r in results if not r.get("error")]
    rnd.shuffle(traces)
    acc, rej, validated, truncated = validate_bounded(traces, canary_only=bool(rep.violations))
    if rej:
        # are the rejected executions behaviours of a variant of the specification with other deviation constants
        # (a deviation was repaired, or a new one appeared)? Informational: the verdict comes from the oracle.
        left = [traces[x["index"]] for x in rej][:5]
        n_try = len(left)
        for bits in (() if rep.violations else ("0111", "1011", "1101", "1110", "0011", "0000")):
            a2, r2 = vlib.validate_traces("TraceSubject", "Subject.trace.v%s.cfg" % bits, left, timeout=600)
            if a2:
                rep.notes.append("DRIFT: %d recorded traces rejected by the descriptive specification are behaviours of the variant "
                                 "(SweepAborts, KeepsDidRows, BuildOnPending, UpdatesDeactivated) = %s; switch the Desc* constants in "
                                 "MCSubject.tla if the code was repaired" % (a2, bits))
                left = [left[x["index"]] for x in r2]
            if not left:
                break
        for x in rej[:3]:
            rep.notes.append("DRIFT: trace %d rejected at event %d %s (%s)" % (x["index"], x["at"], json.dumps(x["event"])[:300], x["kind"]))
        if left and len(rej) > max(3, validated // 20) and not rep.violations:
            rep.inconclusive.append("%d of %d validated traces rejected; %d of %d examined ones are behaviours of no variant of the "
                                    "specification (spec/code drift)" % (len(rej), validated, len(left), n_try))
    if truncated:
        rep.notes.append("NOTE: trace validation stopped after %d of %d traces (%s)" % (validated, len(traces), truncated))
    # every known deviation must have been exercised (otherwise the replay set lost its teeth)
    for cls in CLASSES:
        if counts.get(cls, 0) == 0 and vlib.match_known(prop, {"class": cls}):
            rep.notes.append("NOTE: known finding class %s was not reproduced in this run" % cls)

    phases["trace_validation_s"] = round(time.time() - t1, 1)
    orders, outcomes, miss = {}, {}, 0
    for r in results:
        miss += r.get("order_miss", 0)
        for o in r.get("orders") or []:
            orders[o] = orders.get(o, 0) + 1
        for o in r.get("outcomes") or []:
            outcomes[o] = outcomes.get(o, 0) + 1
    mid = {k: v for k, v in orders.items() if ":1:" in k}
    samples = [dict(script=by_id[r["id"]]["steps"], violations=r["violations"][:3], real_trace_tail=r["trace"][-2:]) for r in results[:2]]
    per_cfg = {}
    for sc in scripts:
        k = cfg_tag(dict(methods=sc.get("methods") or ["web", "nuts"], naming=sc.get("naming") or "given"))
        per_cfg[k] = per_cfg.get(k, 0) + 1
    for r in results:
        if r["violations"] and len(samples) < 5:
            samples.append(dict(script=by_id[r["id"]]["steps"], violations=r["violations"][:3]))
    cov = dict(states=states, transitions=transitions, traces_validated_against_impl=validated, traces_accepted=acc,
               traces_rejected=len(rej), samples=samples, models=models, behaviours_available=n_beh,
               behaviours_replayed_on_real_code=len(results), behaviours_replayed_per_configuration=per_cfg, concurrent_schedules_replayed=n_conc, phase_wall_s=phases, oracle_evaluations=sum(r.get("checks", 0) for r in results),
               operation_outcomes=outcomes, stop_between_commits_orders=mid, scripts_with_unrealised_order=miss,
               violations_by_class=counts, action_coverage=cover, exhaustive=(len(scripts) - len(hand_scripts()) == n_beh),
               rule="fault enumeration: TLC exhausts Subject.tla (op sequences x a network failure or a process stop at every step boundary "
                    "x sweep before/after the minute x both method orders x node configuration (enabled DID methods web+nuts / nuts / web) "
                    "x naming of Create (given / generated / legacy); plus every interleaving of the critical sections of two "
                    "concurrent requests); the prescriptive configuration satisfies all six C13 invariants, "
                    "each named deviation alone violates one; behaviours of the descriptive model are replayed on the real SqlManager + "
                    "didweb/didnuts managers over sqlite/didstore, the statement is evaluated on Resolve/ListDIDs/List/didstore/did_change_log and the (subject, documents) result of Create "
                    "after every successful return, after every complete sweep and on the repeated attempt; every recorded trace is "
                    "validated by TLC against TraceSubject.tla")
    vlib.write_evidence(prop, tier, seed, "model_checking", cov, time.time() - t0, len(rep.violations),
                        ["the network fake answers CreateTransaction synchronously and delivers the signed transaction to the real ambassador before returning",
                         "no SQL failure is injected (Tx1/Tx2/sweep transactions commit); a stop is a panic at a CommitMethod boundary followed by new managers on the same database",
                         "operations and the sweep do not overlap (an operation takes less than the sweep's one minute threshold)",
                         "concurrent requests are scheduled at the boundaries of SQL transactions / autocommit statements of the SqlManager's database handle and of MethodManager.Commit calls (one request runs between two gates); at most two requests overlap, no stop while two are in flight",
                         "sqlite only; one service slot (type tA, two endpoints), assertion keys only, at most 2 subjects and 3-4 operations per behaviour",
                      "single-method nodes and generated / legacy subject names are explored with one subject, sequential requests, 2 operations (quick) / 3 operations (thorough) per behaviour",
                         "Go map iteration order cannot be forced: scripts that stop between the two commits are repeated (<= 6 attempts) until the scripted order occurs"])
    return rep.finish()
