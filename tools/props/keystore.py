"""C03: KeyStore.tla <-> the real crypto engine of a whole in-process node (fs key store + sqlite) with canary keys.

TLC checks the taint model (NoSecretInAnyChannel, NamespaceConfined, SignatureBoundToKid) and generates operation sequences;
the Go driver replays them on the real node, byte-scans every output channel for every canary key in 8 encodings after every
step, verifies every signature against every known public key, and runs every key-name class against the real validating
wrapper over the real fs backend (decoys outside the key directory) and the real Vault backend (recording fake server).

Used only BY KEY ID (UnboundKidSelectsNothing, ArtefactNamesSigner, AuditNamesSigner): every operation that selects a key by
id is requested for ids no key is bound to (empty, unknown, near misses of an existing kid, SQL wildcards, a storage name ...)
while other keys exist and must select nothing; SignJWT / SignJWS get a `kid` among the caller supplied headers (empty, unbound,
the requested key's, another key's) and the kid written into the artefact and named by the audit record must be the signer's."""
import json, random, time
from concurrent.futures import ThreadPoolExecutor
from .. import vlib
from ..vlib import Report, Inconclusive

PROPS = ["C03"]
DRIVER = "keystore"
NAME_CLASSES = ["uuid", "kid", "dotdot", "dotted", "dotdotslash", "slash", "abs", "backslash", "pct2F", "pct2e2e", "space", "hash",
                "empty", "long300", "nul"]


def _model(cfg, expect=None, coverage=False, workers=8):
    m = vlib.tlc("MCKeyStore", cfg, workers=workers, timeout=900, coverage=coverage)
    if m.error:
        raise Inconclusive("TLC %s: %s\n%s" % (cfg, m.error, m.raw[-1500:]))
    if expect:
        if m.violation != expect:
            raise Inconclusive("%s should violate %s but TLC reports %s" % (cfg, expect, m.violation))
    elif m.violation:
        raise Inconclusive("model %s violates %s:\n%s" % (cfg, m.violation, m.raw[-2000:]))
    return m, dict(cfg=cfg, states=m.distinct, transitions=m.generated, depth=m.depth, wall_s=round(m.wall, 1), expected_violation=expect,
                   coverage=m.coverage)


FAMILIES = ["EC-P256", "EC-P384", "EC-P521", "RSA", "OKP-Ed25519", "OKP-X25519"]
JWK_CLASSES = ["none:-"] + ["pub:" + f for f in FAMILIES] + ["priv:" + f for f in FAMILIES] + ["sym:oct"]
REFUSED_TODAY = set(FAMILIES) | {"oct"}   # must mirror MCRefusedToday in MCKeyStore.tla (all families since the fix of F24)


# 'used only by key id': classes of REQUEST key ids no key is bound to (MCKidClasses in MCKeyStore.tla) and of the `kid` a
# caller may put among the headers of SignJWT / SignJWS (none | empty | unbound | the requested key | another key)
KID_CLASSES = ["empty", "unknown", "prefix", "suffixed", "upper", "padded", "sqlwild", "sqlany", "name", "pct"]
HDR_KIDS = ["none", "empty", "unbound", "same", "other"]


def _hkclass(s):
    hk = s.get("hk")
    if hk in (None, "", "none"):
        return ""
    if hk in ("empty", "unbound"):
        return hk
    return "same" if hk == s.get("k") else "other"


HELD_FAMILIES = ["EC-P256", "EC-P384", "EC-P521", "RSA", "Ed25519", "X25519"]   # X25519: not supported by the backends' PEM parser


def _opkey(s):
    return (s["a"],) + tuple(str(s.get(k, "")) for k in ("jwk", "nc", "b", "fam", "via", "kc")) + (_hkclass(s),)


def _features(b):
    """What a sequence exercises: every operation class, and every ordered pair / triple of actions on the SAME key
    (life-cycle patterns such as sign..delete..create..sign or sign..re-link..sign come out as triples)."""
    fs = set(("op",) + _opkey(s) for s in b)
    per_key = {}
    for s in b:
        for k in (s.get("k"), s.get("to")):
            if k:
                per_key.setdefault(k, []).append(s["a"])
        if _hkclass(s) == "other":   # the key whose id the caller put among the headers: what happened to it before / after
            per_key.setdefault(s["hk"], []).append(s["a"] + "-names-it")
        if s["a"] == "UseUnbound":   # a request for an unbound id concerns every key of the store
            for k in ("k1", "k2"):
                per_key.setdefault(k, []).append("UseUnbound")
    for acts in per_key.values():
        for i in range(len(acts)):
            for j in range(i + 1, len(acts)):
                fs.add(("pair", acts[i], acts[j]))
                for l in range(j + 1, len(acts)):
                    fs.add(("triple", acts[i], acts[j], acts[l]))
    return fs


def _select(behaviours, n, rnd):
    """Seeded greedy cover of the features, then the sequences with most distinct actions."""
    behaviours = sorted(behaviours, key=lambda b: json.dumps(b, sort_keys=True))
    rnd.shuffle(behaviours)
    chosen, covered, rest = [], set(), []
    for b in behaviours:
        fs = _features(b)
        if len(chosen) < n and not fs <= covered:
            chosen.append(b)
            covered |= fs
        else:
            rest.append(b)
    rest.sort(key=lambda b: -len(set(s["a"] for s in b)))
    top = rest[: max(0, (n - len(chosen)) * 3)]
    rnd.shuffle(top)
    chosen += top[: max(0, n - len(chosen))]
    return chosen, len(covered)


def _fixed_scripts():
    """Scripts that do not depend on the bounds of the generation config: every operation on one key, an aliased key, and
    every key-name class on both backends."""
    allops = [dict(a="New", k="k1"), dict(a="SignJWT", k="k1")]
    allops += [dict(a="SignJWS", k="k1", jwk=j) for j in JWK_CLASSES]
    allops += [dict(a=a, k="k1") for a in ("SignDPoP", "SignLD", "SignTx", "Decrypt", "Resolve")] + [dict(a="List")]
    allops += [dict(a="New", k="k2"), dict(a="Delete", k="k1"), dict(a="LinkKey", k="k1", to="k2")]
    allops += [dict(a=a, k="k1") for a in ("SignJWT", "SignDPoP", "SignLD", "Resolve")]
    allops += [dict(a="SignJWS", k="k1", jwk="priv:EC-P256"), dict(a="List")]
    # life cycle of ONE key id: use, delete (must stop working), create again under the same kid, use; re-link a used kid
    life = [dict(a="New", k="k1")] + [dict(a=a, k="k1") for a in ("SignJWT", "SignDPoP", "Decrypt")] + [dict(a="SignJWS", k="k1", jwk="none:-")]
    life += [dict(a="Delete", k="k1"), dict(a="SignDeleted", k="k1"), dict(a="New", k="k1")]
    life += [dict(a=a, k="k1") for a in ("SignJWT", "SignDPoP", "Resolve", "SignLD")] + [dict(a="SignJWS", k="k1", jwk="none:-")]
    life += [dict(a="New", k="k2"), dict(a="SignJWT", k="k2"), dict(a="LinkKey", k="k1", to="k2"), dict(a="SignJWT", k="k1"), dict(a="SignDPoP", k="k1"),
             dict(a="Delete", k="k2"), dict(a="SignDeleted", k="k1"), dict(a="SignDeleted", k="k2"), dict(a="New", k="k2"), dict(a="SignJWT", k="k2"),
             dict(a="LinkKey", k="k1", to="k2"), dict(a="SignJWT", k="k1"), dict(a="List")]
    names = [dict(a="New", k="k1")]
    for nc in NAME_CLASSES:
        names += [dict(a="LinkName", nc=nc), dict(a="UseName", b="fs", nc=nc), dict(a="UseName", b="vault", nc=nc)]
    names += [dict(a="SignJWT", k="k1"), dict(a="List")]
    # every public operation of the key store for every key family a backend can hold (imported PEM, registered through Link
    # and through Migrate), including the operations that are expected to FAIL for that family; afterwards the life cycle
    fams = []
    for i, fam in enumerate(HELD_FAMILIES):
        steps = []
        for via in ("link", "migrate"):
            steps += [dict(a="Import", k="k1", fam=fam, via=via)]
            steps += [dict(a=a, k="k1") for a in ("Exists", "Resolve", "SignJWT", "SignDPoP", "Decrypt", "JWE")]
            steps += [dict(a="SignJWS", k="k1", jwk=j) for j in ("none:-", "pub:EC-P256", "priv:OKP-Ed25519")]
            steps += [dict(a="List"), dict(a="New", k="k2"), dict(a="LinkKey", k="k2", to="k1"), dict(a="SignJWT", k="k2"), dict(a="Decrypt", k="k2"),
                      dict(a="Delete", k="k1"), dict(a="SignDeleted", k="k1"), dict(a="SignDeleted", k="k2"), dict(a="Exists", k="k1")]
            steps += [dict(a="New", k="k1"), dict(a="SignJWT", k="k1"), dict(a="Delete", k="k1")]
        fams.append(dict(id="fixed-key-family-%s" % fam, steps=steps))
    # used only BY KEY ID: every class of request key id no key is bound to, and every class of caller supplied kid header on
    # every entry point that takes caller headers (with and without a jwk header), in every state of the OTHER key: existing,
    # deleted, the same key under an alias, re-created; once more on a store that holds imported keys of other families
    def hdr(k, other):
        st = []
        for hk in ("none", "empty", "unbound", k, other):
            st += [dict(a="SignJWT", k=k, hk=hk), dict(a="SignJWS", k=k, jwk="none:-", hk=hk), dict(a="SignJWS", k=k, jwk="pub:EC-P256", hk=hk)]
        return st
    byid = [dict(a="UseUnbound", kc="empty"), dict(a="UseUnbound", kc="unknown"), dict(a="New", k="k1"), dict(a="New", k="k2")]
    byid += [dict(a="UseUnbound", kc=kc) for kc in KID_CLASSES] + hdr("k1", "k2") + hdr("k2", "k1")
    byid += [dict(a="SignJWS", k="k1", jwk="priv:EC-P256", hk="k2"), dict(a="Delete", k="k2"), dict(a="SignDeleted", k="k2")] + hdr("k1", "k2")
    byid += [dict(a="UseUnbound", kc=kc) for kc in ("empty", "prefix", "sqlwild", "name")]
    byid += [dict(a="LinkKey", k="k2", to="k1")] + hdr("k2", "k1") + hdr("k1", "k2") + [dict(a="Delete", k="k1"), dict(a="SignDeleted", k="k2")]
    byid += [dict(a="UseUnbound", kc=kc) for kc in ("empty", "unknown", "suffixed")] + [dict(a="New", k="k1"), dict(a="New", k="k2")] + hdr("k1", "k2")
    byid += [dict(a="List")]
    byfam = []
    for fam in ("RSA", "Ed25519"):
        byfam += [dict(a="Import", k="k1", fam=fam, via="link"), dict(a="Import", k="k2", fam="EC-P256", via="migrate")]
        byfam += [dict(a="UseUnbound", kc=kc) for kc in KID_CLASSES]
        byfam += [dict(a="SignJWT", k="k1", hk="k2"), dict(a="SignJWS", k="k1", jwk="none:-", hk="k2"), dict(a="SignJWS", k="k2", jwk="none:-", hk="k1"),
                  dict(a="SignJWT", k="k2", hk="unbound"), dict(a="Delete", k="k1"), dict(a="Delete", k="k2")]
    return [dict(id="fixed-all-operations", steps=allops), dict(id="fixed-key-life-cycle", steps=life), dict(id="fixed-name-classes", steps=names),
            dict(id="fixed-by-key-id", steps=byid), dict(id="fixed-by-key-id-families", steps=byfam)] + fams


def _sig(v):
    if v["kind"] == "secret-leak":
        sig = dict(kind=v["kind"], channel=v.get("channel"), op=v.get("op"))
        if v.get("jwk"):
            sig["jwk"] = v["jwk"]   # class of the caller supplied jwk header that was published
        return sig
    if v["kind"] == "namespace-escape":
        return dict(kind=v["kind"], name_class=v.get("name_class"), backend=v.get("backend"))
    if v["kind"] == "unbound-kid-selects-key":
        return dict(kind=v["kind"], op=v.get("op"), kid_class=v.get("kid_class"))
    if v["kind"] in ("artefact-names-other-key", "audit-names-other-key"):
        return dict(kind=v["kind"], op=v.get("op"), hdr_kid=v.get("hdr_kid"))
    return dict(kind=v["kind"], op=v.get("op"))


def run(prop, tier, seed, replay=None):
    t0 = time.time()
    rep = Report(prop)
    binary = vlib.build_driver(DRIVER)
    if replay:
        obj = json.load(open(replay))
        res = vlib.run_driver(binary, obj["input"])
        for r in res:
            print(json.dumps(dict(id=r["id"], ops=r["ops"], error=r.get("error")))[:3000])
            for v in r["violations"]:
                print("  " + json.dumps(v)[:600])
                rep.violation(_sig(v), obj)
        return rep.finish()

    quick = tier == "quick"
    rnd = random.Random(seed)
    models = []
    # 1. prescriptive model satisfies the invariants; the descriptive variant of the current tree and the deviant variant do not
    m, d = _model("KeyStore.quick.cfg" if quick else "KeyStore.thorough.cfg", coverage=not quick)
    models.append(d)
    if not quick:
        for a in ("New", "SignJWT", "SignJWS", "SignDPoP", "SignLD", "SignTx", "Decrypt", "Resolve", "List", "Delete", "SignDeleted", "LinkKey", "LinkName", "UseName", "Import", "Exists", "JWE", "UseUnbound"):
            if not m.coverage.get(a):
                raise Inconclusive("vacuity: action %s never fired in %s" % (a, d["cfg"]))
    # vacuity guards: every invariant is violated by the model variant with the corresponding deviation switched on
    # (the deviations '..' admitted by the name pattern and 'X25519 / oct jwk header not refused' were findings F23 / F24)
    # 'an unbound request kid selects a key' / 'a caller supplied kid header survives' are the deviations of the dimension
    # 'used only by key id'
    guards = [("KeyStore.dotdot.cfg", "NamespaceConfined"), ("KeyStore.deviant.cfg", "NoSecretInAnyChannel"), ("KeyStore.cache.cfg", "SignatureBoundToKid"),
              ("KeyStore.jwkfam.cfg", "NoCallerSecretEchoed"), ("KeyStore.errtext.cfg", "NoSecretInAnyChannel"),
              ("KeyStore.unbound.cfg", "UnboundKidSelectsNothing"), ("KeyStore.hdrkid.cfg", "ArtefactNamesSigner"), ("KeyStore.hdrkidaudit.cfg", "AuditNamesSigner")]
    with ThreadPoolExecutor(max_workers=3) as pool:   # eight tiny models: the JVM start dominates
        for md in pool.map(lambda ce: _model(ce[0], expect=ce[1], workers=2)[1], guards):
            models.append(md)
    # 2. behaviours from the model
    g, gd = _model("KeyStore.gen.cfg" if quick else "KeyStore.gen.thorough.cfg")
    gd["behaviours"] = len(g.printed)
    models.append(gd)
    if len(g.printed) < 50:
        raise Inconclusive("TLC generated only %d behaviours" % len(g.printed))
    chosen, nfeatures = _select(g.printed, 400 if quick else 3000, rnd)
    # ... and from the permissive variant of the dimension 'used only by key id' (every class of unbound request kid and of
    # caller supplied kid header gives distinct terminal states there, so every class is witnessed in every life-cycle context)
    g2, gd2 = _model("KeyStore.gen.byid.cfg" if quick else "KeyStore.gen.byid.thorough.cfg")
    gd2["behaviours"] = len(g2.printed)
    models.append(gd2)
    byid = [b for b in g2.printed if any(s["a"] == "UseUnbound" or _hkclass(s) for s in b)]
    if len(byid) < 50:
        raise Inconclusive("TLC generated only %d behaviours for the by-key-id dimension" % len(byid))
    chosen2, nfeatures2 = _select(byid, 150 if quick else 1000, rnd)
    scripts = _fixed_scripts() + [dict(id="b%05d" % i, steps=b) for i, b in enumerate(chosen)] + [dict(id="i%05d" % i, steps=b) for i, b in enumerate(chosen2)]
    # 3. the real node
    try:
        results = vlib.run_driver_parallel(binary, dict(seed=seed, scripts=scripts), shards=6 if quick else 8, timeout=420 if quick else 900)
    except Inconclusive:
        # e.g. the in-process node lost the race for a free TCP port against another check running on this machine
        results = vlib.run_driver_parallel(binary, dict(seed=seed, scripts=scripts), shards=6 if quick else 8, timeout=420 if quick else 900)
    if len(results) != len(scripts):
        raise Inconclusive("driver returned %d results for %d scripts" % (len(results), len(scripts)))
    by_id = {s["id"]: s for s in scripts}
    checks = scanned = sigs = audit = 0
    channels, opkeys, drift, ninc = {}, set(), {}, 0
    outcomes = {}
    for r in results:
        checks += r["checks"]
        scanned += r["scanned"]
        sigs += r["signatures"]
        audit += r.get("audit_lines", 0)
        for c, n in (r.get("channels") or {}).items():
            channels[c] = channels.get(c, 0) + n
        if r.get("error"):
            ninc += 1
            rep.inconclusive.append("script %s: %s" % (r["id"], r["error"][:300]))
        for dnote in r.get("drift") or []:
            drift[dnote] = drift.get(dnote, 0) + 1
        sc = by_id[r["id"]]
        for s, o in zip(sc["steps"], r["ops"]):
            opkeys.add(_opkey(s))
            key = s["a"] + ":" + ("n" if s["a"] == "List" else o["outcome"].split(" ")[0])
            outcomes[key] = outcomes.get(key, 0) + 1
        for v in r["violations"]:
            rep.violation(_sig(v), dict(property=prop, signature=_sig(v), violation=v, input=dict(seed=seed, scripts=[sc])))
    if ninc <= max(1, len(results) // 50):
        rep.inconclusive = []
    # which secret jwk families does the real SignJWS refuse? (the descriptive model assumes REFUSED_TODAY)
    refused_real = set()
    for r in results:
        if r["id"] == "fixed-all-operations":
            for st, o in zip(by_id[r["id"]]["steps"], r["ops"]):
                j = st.get("jwk", "")
                if st["a"] == "SignJWS" and j.split(":")[0] in ("priv", "sym") and "signed" not in o["outcome"]:
                    refused_real.add(j.split(":")[1])
    if refused_real != REFUSED_TODAY:
        rep.notes.append("DRIFT: SignJWS refuses secret jwk headers of families %s, the descriptive model assumes %s"
                         % (sorted(refused_real), sorted(REFUSED_TODAY)))
    for dn, n in sorted(drift.items())[:6]:
        rep.notes.append(("NOTE: %s (x%d) - a panic is not a C03 violation; its text is scanned like an error text" if dn.startswith("PANIC")
                          else "DRIFT: %s (x%d)") % (dn, n))
    need = {"httpResponse", "jwsHeader", "token", "didDocument", "sqlRow", "auditLog", "log", "fileName", "errorText"}
    if need - set(c for c, n in channels.items() if n > 0):
        raise Inconclusive("channels not captured: %s" % sorted(need - set(channels)))
    if sigs == 0 or audit == 0:
        raise Inconclusive("no signature verified / no audit record captured")

    samples = [dict(script=s["steps"], outcome=[o["outcome"][:80] for o in r["ops"]])
               for s, r in [(by_id[r["id"]], r) for r in results[:400:150]]]
    cov = dict(evaluations=checks, distinct_nontrivial=len(set(json.dumps(s["steps"], sort_keys=True) for s in scripts)),
               rule="TLC generates operation sequences (one witness per distinct terminal state of the KeyStore model); a seeded "
                    "selection covering every (action, argument class) plus two fixed scripts (every operation incl. aliased key; every "
                    "key-name class on the fs and Vault backends; every class of unbound request key id and of caller supplied kid header) is replayed on a whole in-process node with canary keys. evaluations = "
                    "channel scans + signature verifications (each against every known public key) + namespace checks; distinct_nontrivial = "
                    "number of distinct operation sequences replayed (every one creates/uses keys and is followed by scans of all channels)",
               samples=samples, scripts_replayed=len(results), behaviours_available=len(g.printed) + len(byid), bytes_scanned=scanned,
               bytes_scanned_per_channel=channels, signatures_verified=sigs, audit_records_scanned=audit,
               distinct_operation_classes=len(opkeys), operation_outcomes=outcomes, name_classes=len(NAME_CLASSES),
               jwk_header_classes=len(JWK_CLASSES), secret_jwk_families_refused_by_the_code=sorted(refused_real),
               sequence_features_covered=nfeatures, by_key_id=dict(behaviours_available=len(byid), replayed=len(chosen2), sequence_features_covered=nfeatures2,
                                                                    unbound_request_kid_classes=KID_CLASSES, caller_kid_header_classes=HDR_KIDS),
               key_families_held=HELD_FAMILIES,
               canary_forms=["raw", "hex", "HEX", "hex spaced", "base64", "base64 raw", "base64url", "base64url raw", "base64 at 3 alignments",
                             "decimal byte list (%v of []byte)", "Go-syntax byte list (%#v)", "decimal big int (%v/%d)", "hex big int (%x)",
                             "PEM body lines", "DER hex", "DER raw"],
               secret_parts="EC: d; RSA: D, primes, Dp, Dq, Qinv; Ed25519: seed and 64-byte key; X25519: scalar",
               models=models, states=sum(x["states"] for x in models), transitions=sum(x["transitions"] for x in models),
               drift_notes=drift, inconclusive_scripts=ninc, exhaustive=False)
    vlib.write_evidence(prop, tier, seed, "exploration", cov, time.time() - t0, len(rep.violations),
                        ["NOT covered: the static half of C03 (an inventory of all call sites in the code base that can reach raw private key "
                         "bytes) cannot be decided by a TLA+ model of executions; only the operations the model enumerates are exercised",
                         "a leak is detected only in the scanned encodings of the private scalar d / of the stored PEM (raw, hex, base64 and "
                         "base64url incl. unaligned, decimal, PEM body, DER); an encrypted, compressed or otherwise transformed copy is not seen",
                         "channels: texts of the errors (and panics) every in-process key store call returns; HTTP responses (bodies + headers) of the crypto, vdr, vcr, auth, network, status and public metadata endpoints "
                         "that the operations call; logrus output at trace level incl. audit records; every row of every sqlite table; headers "
                         "and claims of every signed artefact; file names below the data directory",
                         "only the fs key store (and a fake Vault HTTP endpoint for path confinement) is executed; Azure Key Vault and the external "
                         "store are not",
                         "keys of other families than EC P-256 get into the store as imported PEM files (pre-populated fs backend) registered "
                         "through Link / Migrate; signature verification by jwx is trusted",
                         "used only by key id: request key ids no key is bound to are the ten classes of MCKidClasses (near misses derived from one "
                         "existing kid / storage name), on sqlite only (another SQL dialect may compare key ids case- or padding-insensitively); "
                         "the kid written into an artefact is checked on SignJWT / SignJWS (key store method and sign_jws API) with five classes of "
                         "caller supplied kid header; audit records are judged only where they name a key id the script knows",
                        "LD-proof signatures are checked through proof.verificationMethod and the node's own verifier, not by an independent "
                         "canonicaliser"])
    return rep.finish()
