"""C05: OneTime.tla <-> storage session cache + the one-time-secret call sites of auth/api/iam and vcr/issuer.

Request contexts: the requests that present one value need not be copies of each other. ctx (c0 = the original context,
c1 = another one in which the request is acceptable on its own) is part of the model; CONTEXTS lists the concrete
realisations per site. The prescriptive model keys the entry by the value alone (KeyedByValueOnly); the deviating variant
OneTime.part.amo.cfg (key = context + value) must break AtMostOnce, otherwise the dimension would be vacuous.

Pipeline: (1) TLC exhausts the prescriptive model (all invariants), the descriptive model (what the code does: every
site but the pre-authorized code is serialised; AtMostOnce at the repaired sites and the other invariants) and the permissive model (no lookup-and-burn atomic: the
invariants that hold even so); the per-site AtMostOnce invariants of the descriptive model are EXPECTED to be violated
exactly at the sites whose deviation constant is still FALSE (prediction; F6-preauth is left). (2) every maximal path of the
PERMISSIVE model (2 requests quick, 2 and 3 requests thorough; with and without the validity window elapsing) is a schedule
of primitive cache operations: the interleaved ones are those on which code without the serialisation fails. (3) the Go driver replays each schedule on the real handlers over the gated real session database and
counts real successes per secret. (4) the recorded traces are validated by TLC against TraceOneTime.tla."""
import collections, json, random, re, time
from .. import vlib
from ..vlib import Report, Inconclusive

PROPS = ["C05"]

SITE = {"code": "oauth/authorization_code", "reqobj": "oauth/request_object", "vpnonce": "openid4vp/nonce",
        "redirect": "user/redirect_token", "s2snonce": "s2s/nonce", "dpopjti": "dpop/jti",
        "preauth": "openid4vci/pre_authorized_code"}
AMO = {"AmoCode": "code", "AmoReqObj": "reqobj", "AmoVpNonce": "vpnonce", "AmoRedirect": "redirect",
       "AmoS2SNonce": "s2snonce", "AmoDpopJti": "dpopjti", "AmoPreAuth": "preauth"}
# concrete realisations of the abstract request flavours (driver: world.prepare)
VARIANTS = {
    "code": {"bad": ["wrong-verifier", "wrong-client"], "early": ["no-verifier", "no-client"]},
    "reqobj": {"bad": ["wrong-verb", "wrong-subject"]},
    "vpnonce": {"bad": ["other-state", "vp-invalid"], "early": ["two-nonces"]},
    "s2snonce": {"bad": ["vp-invalid", "dpop-garbage"]},
    "redirect": {"bad": ["unknown-subject"]},
}
# concrete realisations of the abstract context c1 (driver: world.prepare): what accompanies the value differs, the request
# is still acceptable on its own. redirect / preauth requests carry nothing but the value.
CONTEXTS = {
    "code": ["other-tenant", "with-dpop"],
    "reqobj": ["wallet-nonce"],
    "vpnonce": ["nonce-field", "other-vp"],
    "s2snonce": ["other-client", "other-scope", "with-dpop", "other-vp"],
    "dpopjti": ["other-key", "other-token", "other-url"],
}
ACTIONS = ["CodeGet", "CodeDel", "CodeDeferredDelete", "ReqObjGet", "ReqObjDel", "NonceGet", "NonceDel", "NonceBurn",
           "RedirectGet", "RedirectDel", "GadAtomic", "S2SGet", "S2SPut", "S2SAtomic", "JtiGet", "JtiPut", "JtiAtomic",
           "PreExists", "PreGet", "PreDel", "PreAtomic", "Tick"]
WORKERS = 8
ASSUMPTIONS = [
    "the in-memory session database (storage/session_inmemory.go) is the store; redis/memcached back-ends are not exercised",
    "go-cache executes each single Get/Set/Delete atomically and expires entries by comparing the stored expiry with the clock",
    "time is advanced by rewriting the expiry of the secret's entry (entry kinds: exactly its own TTL; marker kinds: the "
    "validity of the guarded presentation / access token), not by waiting",
    "collaborators that need a network peer or key material are the repo's gomock mocks (VerifyVP, policy backend, JWT signer, "
    "AS metadata, subject manager); presentations are unsigned JSON-LD documents",
    "small scope: 2 (quick) / 3 (thorough) requests per secret value, one elapsed validity window",
    "request contexts: two per secret value (the original one and one other); the other context is realised by the variations "
    "listed in CONTEXTS (2 requests: every variation; 3 requests: one request in another context, variation drawn from the seed, "
    "authorization code excluded), not by every parameter a request could carry",
]


def signature(v):
    sig = dict(kind=v["kind"], site=v["site"], pattern=v["pattern"])
    if v.get("contexts"):
        sig["contexts"] = v["contexts"]
    return sig


def model_runs(tier, quick):
    """TLC on the prescriptive / descriptive / permissive configs; returns (models, states, transitions, coverage, predicted sites)."""
    models, cover = [], collections.Counter()
    states = transitions = 0
    for cfg, what in (("OneTime.presc.%s.cfg" % tier, "prescriptive"), ("OneTime.desc.%s.cfg" % tier, "descriptive"),
                      ("OneTime.perm.%s.cfg" % tier, "permissive")):
        m = vlib.tlc("MCOneTime", cfg, workers=WORKERS, timeout=600, coverage=not quick)
        if m.error:
            raise Inconclusive("TLC %s: %s\n%s" % (cfg, m.error, m.raw[-1500:]))
        if m.violation:
            raise Inconclusive("the %s model %s violates %s (specification error, not a verdict):\n%s"
                               % (what, cfg, m.violation, m.raw[-2500:]))
        states += m.distinct
        transitions += m.generated
        models.append(dict(cfg=cfg, variant=what, states=m.distinct, transitions=m.generated, depth=m.depth, wall_s=round(m.wall, 1)))
        cover.update(m.coverage)
    if not quick:
        dead = [a for a in ACTIONS if cover.get(a, 0) == 0]
        if dead:
            raise Inconclusive("vacuity: actions never fire in the exhaustive runs: %s" % dead)
    # prediction: where does the descriptive model break AtMostOnce?
    p = vlib.tlc("MCOneTime", "OneTime.desc.amo.cfg", workers=1, timeout=300, extra=["-continue"])
    if p.error and "timeout" in str(p.error):
        raise Inconclusive("TLC OneTime.desc.amo.cfg: " + p.error)
    predicted = sorted(AMO[i] for i in set(re.findall(r"Invariant (\w+) is violated", p.raw)) if i in AMO)
    states += p.distinct
    transitions += p.generated
    models.append(dict(cfg="OneTime.desc.amo.cfg", variant="descriptive, per-site AtMostOnce, -continue",
                       states=p.distinct, transitions=p.generated, predicted_double_success=[SITE[k] for k in predicted]))
    # vacuity guard of the context dimension: keyed by (context, value) the otherwise prescriptive model must break the property
    d = vlib.tlc("MCOneTime", "OneTime.part.amo.cfg", workers=1, timeout=300, extra=["-continue"])
    if d.error and "timeout" in str(d.error):
        raise Inconclusive("TLC OneTime.part.amo.cfg: " + d.error)
    broken = sorted(set(re.findall(r"Invariant (\w+) is violated", d.raw)))
    if not {"AmoS2SNonce", "AmoDpopJti", "DeadAfterFailedRedemption"} <= set(broken):
        raise Inconclusive("vacuity: the model keyed by (context, value) does not break the property (violated: %s)\n%s" % (broken, d.raw[-1500:]))
    states += d.distinct
    transitions += d.generated
    models.append(dict(cfg="OneTime.part.amo.cfg", variant="deviating: atomic but keyed by (request context, value), -continue",
                       states=d.distinct, transitions=d.generated, violated_as_expected=broken))
    return models, states, transitions, dict(cover), predicted


def generate(cfgs, rnd):
    """All maximal paths of the permissive model -> driver scripts with concretised flavours."""
    scripts = []
    gens = []
    for cfg in cfgs:
        g = vlib.tlc("MCOneTime", cfg, workers=WORKERS, timeout=900)
        if not g.ok:
            raise Inconclusive("generation run %s failed: %s %s" % (cfg, g.violation, g.error))
        paths = sorted(g.printed, key=lambda b: json.dumps(b, sort_keys=True))
        gens.append(dict(cfg=cfg, states=g.distinct, transitions=g.generated, maximal_paths=len(paths)))
        tag = "q" if "quick" in cfg else ("u" if "ctx" in cfg else "t")
        exhaustive_ctx = "quick" in cfg
        n = 0
        for b in paths:
            kind, flav, ctx = b[0]["kind"], b[0]["flav"], b[0].get("ctx") or {}
            variant = {r: (rnd.choice(VARIANTS.get(kind, {}).get(f, [""])) if f != "good" else "") for r, f in sorted(flav.items())}
            others = sorted(r for r in flav if ctx.get(r, "c0") != "c0")
            if not others and "ctx" in cfg:
                continue                        # generated by the configuration without contexts already
            if not others:
                alts = [None]
            elif exhaustive_ctx:
                alts = CONTEXTS[kind]           # 2 requests: every realisation of the other context
            else:
                alts = [rnd.choice(CONTEXTS[kind])]
            for alt in alts:
                context = {r: (alt if r in others else "") for r in sorted(flav)}
                # a wallet_nonce only travels in a POST
                method = "post" if alt == "wallet-nonce" else rnd.choice(["get", "post"])
                scripts.append(dict(id="%s%06d" % (tag, n), steps=b, variant=variant, context=context, obj_method=method))
                n += 1
        gens[-1]["scripts"] = n
    return scripts, gens


def validate(traces, timeout=900, batch=4000):
    """Validates recorded traces against TraceOneTime.tla. One TLC run classifies a whole batch: the trace spec reports
    (TRACE-DRIFT-AT line / TRACE-INVARIANT name line) instead of stopping. Returns per trace dict(drift=index|None, inv=set)."""
    import bisect, os, shutil
    out = [dict(drift=None, inv=set()) for _ in traces]
    for base in range(0, len(traces), batch):
        chunk = traces[base:base + batch]
        lines, starts = [], []
        for t in chunk:
            starts.append(len(lines) + 1)
            lines.append(json.dumps({"ev": "reset"}))
            lines.extend(json.dumps(e) for e in t)
        work = vlib.scratch("trace")
        try:
            tf = os.path.join(work, "trace.ndjson")
            with open(tf, "w") as fh:
                fh.write("\n".join(lines) + "\n")
            r = vlib.tlc("TraceOneTime", "OneTime.trace.cfg", workers=1, timeout=timeout, env={"VERIF_TRACE": tf}, deque=True)
        finally:
            shutil.rmtree(work, ignore_errors=True)
        if r.error or r.violation or "TRACE-REJECTED-AT" in r.raw:
            raise Inconclusive("trace validation did not run to the end: %s %s\n%s" % (r.violation, r.error, r.raw[-2000:]))
        if r.distinct < len(lines):
            raise Inconclusive("trace validation consumed %d of %d events" % (r.distinct, len(lines)))
        for m in re.finditer(r'<<"TRACE-DRIFT-AT", (\d+)>>', r.raw):
            ln = int(m.group(1))
            i = bisect.bisect_right(starts, ln) - 1
            if out[base + i]["drift"] is None:
                out[base + i]["drift"] = ln - starts[i] - 1
        for m in re.finditer(r'<<"TRACE-INVARIANT", "(\w+)", (\d+)>>', r.raw):
            i = bisect.bisect_right(starts, int(m.group(2))) - 1
            out[base + i]["inv"].add(m.group(1))
    return out


def execute(binary, scripts):
    if not scripts:
        return []
    return vlib.run_driver_parallel(binary, dict(scripts=scripts), shards=min(WORKERS, max(1, len(scripts) // 50)), timeout=900)


def run(prop, tier, seed, replay=None):
    t0 = time.time()
    rep = Report(prop)
    binary = vlib.build_driver("onetime")
    if replay:
        obj = json.load(open(replay))
        res = vlib.run_driver(binary, obj["input"])
        for r in res:
            print(json.dumps({k: r[k] for k in ("id", "kind", "outcomes", "violations", "drift", "error") if k in r})[:3000])
            for e in r.get("trace") or []:
                print("   ", json.dumps(e))
            if r.get("error"):
                rep.inconclusive.append("script %s: %s" % (r["id"], r["error"]))
            for v in r["violations"]:
                rep.violation(signature(v), obj)
        return rep.finish()

    quick = tier == "quick"
    rnd = random.Random(seed)
    models, states, transitions, cover, predicted = model_runs("quick" if quick else "thorough", quick)
    scripts, gens = generate(["OneTime.gen.quick.cfg"] + ([] if quick else ["OneTime.gen.thorough.cfg", "OneTime.gen.ctx3.cfg"]), rnd)
    for g in gens:
        states += g["states"]
        transitions += g["transitions"]
    rnd.shuffle(scripts)
    by_id = {s["id"]: s for s in scripts}
    results = execute(binary, scripts)
    if len(results) != len(scripts):
        raise Inconclusive("driver returned %d results for %d scripts" % (len(results), len(scripts)))

    # ---- verdicts from the real responses
    ninc = ndrift = ndeferred = 0
    per_kind = collections.defaultdict(lambda: collections.Counter())
    reproduced = collections.Counter()
    samples = []
    ttl = {}
    for r in results:
        sc = by_id[r["id"]]
        k = r.get("kind", "?")
        per_kind[k]["scripts"] += 1
        if r.get("error"):
            ninc += 1
            rep.inconclusive.append("script %s (%s): %s" % (r["id"], k, r["error"]))
            continue
        ndrift += len(r.get("drift") or [])
        ndeferred += r.get("deferred", 0) + r.get("extra", 0)
        if r.get("drift") and per_kind[k]["drift"] < 1:
            rep.notes.append("DRIFT: %s script %s: %s" % (k, r["id"], r["drift"][0]))
        per_kind[k]["drift"] += 1 if r.get("drift") else 0
        per_kind[k]["with_success"] += 1 if r["successes"] > 0 else 0
        per_kind[k]["requests"] += len(r["outcomes"])
        per_kind[k]["ticks"] += sum(1 for e in r["trace"] if e["ev"] == "tick")
        for o in r["outcomes"].values():
            per_kind[k]["flavour:" + o["flavour"] + ("/" + o["variant"] if o.get("variant") else "")] += 1
            if o.get("context"):
                per_kind[k]["context:" + o["context"]] += 1
                if o["ok"]:
                    per_kind[k]["honoured-in-context:" + o["context"]] += 1
        if len(set(o.get("context", "") for o in r["outcomes"].values())) > 1:
            per_kind[k]["scripts_mixing_contexts"] += 1
        ttl[k] = r.get("secret_ttl_s") or next((e["ttl_s"] for e in r["trace"] if e["ev"] == "op" and e["op"] == "set"), ttl.get(k, 0))
        for v in r["violations"]:
            sig = signature(v)
            if sig["kind"] == "double-success" and sig["pattern"] == "concurrent":
                reproduced[k] += 1
            rep.violation(sig, dict(property=prop, violation=v, input=dict(scripts=[sc])))
            if len(samples) < 3 and not any(s.get("site") == v["site"] for s in samples):
                samples.append(dict(site=v["site"], violation=v["detail"], schedule=sc["steps"], real_trace=r["trace"]))
    if ninc <= max(1, len(results) // 200):
        rep.inconclusive = []          # isolated hiccups do not veto a run; they are counted in the evidence
    # vacuity: at every site the driver must be able to make a request succeed, and every flavour must have been replayed
    for k in SITE:
        if per_kind[k]["with_success"] == 0:
            rep.inconclusive.append("vacuous: no request was ever honoured at site %s (driver/code drift)" % SITE[k])
    # ... and the other contexts must be acceptable contexts: a request sent in one is honoured when it comes first
    for k, alts in CONTEXTS.items():
        if per_kind[k]["scripts"] and not any(per_kind[k]["honoured-in-context:" + a] for a in alts):
            rep.inconclusive.append("vacuous: no request in another context (%s) was ever honoured at site %s" % (", ".join(alts), SITE[k]))
        for a in alts:
            if per_kind[k]["context:" + a] and not per_kind[k]["honoured-in-context:" + a]:
                rep.notes.append("NOTE: context %s is never honoured at site %s (the code binds it to the value now? then drop it from CONTEXTS)" % (a, SITE[k]))
    if ndrift > max(3, len(results) // 20):
        rep.inconclusive.append("%d schedule steps did not line up with the real primitives (spec/code drift)" % ndrift)
    # prediction vs reality (informative: a repaired site simply stops reproducing; a site that reproduces without being
    # predicted is reported as a violation by the Go oracle above - no open finding matches it)
    for k in predicted:
        if not reproduced[k]:
            rep.notes.append("NOTE: the descriptive specification predicts a concurrent double success at %s; the real code did not "
                             "show one (repaired? then switch the deviation constant and close the finding)" % SITE[k])
    for k in reproduced:
        if k not in predicted:
            rep.notes.append("NOTE: concurrent double success at %s is not predicted by the descriptive specification" % SITE[k])

    # ---- the recorded real traces are behaviours of the specification (and the real verdicts are the derived ones)
    good = [r for r in results if not r.get("error")]
    verdicts = validate([r["trace"] for r in good])
    rej_all = []
    for r, v in zip(good, verdicts):
        oracle_double = any(x["kind"] == "double-success" for x in r["violations"])
        for inv in sorted(v["inv"]):
            if inv == "AtMostOnce" and oracle_double:
                continue            # the same real execution, already reported with its precise signature by the Go oracle
            # a property invariant failed on the state reconstructed from a REAL execution
            rej_all.append(dict(script=r["id"], kind_of_secret=r["kind"], kind="invariant:" + inv, event=None))
            rep.violation(dict(kind="trace-invariant:" + inv, site=r["site"], pattern="trace"),
                          dict(property=prop, rejected=inv, input=dict(scripts=[by_id[r["id"]]])))
        if oracle_double and "AtMostOnce" not in v["inv"] and v["drift"] is None:
            rep.notes.append("DRIFT: script %s: the Go oracle counted two successes, the reconstructed model state has at most one" % r["id"])
        if v["drift"] is not None:
            rej_all.append(dict(script=r["id"], kind_of_secret=r["kind"], kind="no-matching-action", event=r["trace"][v["drift"]]))
    ndrift_tr = sum(1 for x in rej_all if x["kind"] == "no-matching-action")
    for x in [x for x in rej_all if x["kind"] == "no-matching-action"][:5]:
        rep.notes.append("DRIFT: trace of script %s (%s) leaves the specification at event %s" % (x["script"], x["kind_of_secret"], json.dumps(x["event"])))
    ntr = len(good)
    acc = ntr - len(set(x["script"] for x in rej_all))
    if ndrift_tr > max(3, ntr // 20) and not rep.violations:
        rep.inconclusive.append("%d of %d recorded traces are not behaviours of the specification (spec/code drift)" % (ndrift_tr, ntr))

    if not samples and results:
        r = next((x for x in good if len(x["trace"]) > 6), good[0] if good else results[0])
        samples.append(dict(site=r.get("site"), schedule=by_id[r["id"]]["steps"], real_trace=r.get("trace")))
    cov = dict(states=states, transitions=transitions, traces_validated_against_impl=ntr, traces_accepted=acc,
               traces_rejected=ntr - acc, samples=samples, models=models, generation=gens,
               behaviours_replayed_on_real_code=len(results), exhaustive=True,
               requests_executed=sum(c["requests"] for c in per_kind.values()),
               per_site={SITE.get(k, k): dict(c) for k, c in sorted(per_kind.items())},
               real_ttl_s_of_secret_entry={SITE.get(k, k): v for k, v in sorted(ttl.items())},
               predicted_double_success_sites=[SITE[k] for k in predicted],
               reproduced_concurrent_double_success={SITE[k]: n for k, n in sorted(reproduced.items())},
               schedule_drift_notes=ndrift, steps_outside_schedule=ndeferred, inconclusive_scripts=ninc,
               action_coverage=cover, known_findings_hit=sorted(rep.known),
               rule="TLC exhausts OneTime.tla for every call site: the prescriptive variant (atomic lookup-and-burn) satisfies "
                    "AtMostOnce, DeadAfterFailedRedemption, NoSuccessAfterExpiry; the descriptive variant (what the code does: every site but "
                    "the pre-authorized code is serialised since the repairs of F6) satisfies AtMostOnce at the repaired sites and the "
                    "other two; the permissive variant (no lookup-and-burn atomic) "
                    "satisfies the latter two. EVERY maximal path of the permissive variant (all interleavings of the primitive "
                    "cache operations of 2%s requests of every flavour combination, with and without the validity window elapsing) "
                    "is replayed gate by gate, with the value presented in the original and in other request contexts (other client_id / scope / "
                 "tenant / DPoP header / presentation / proof / wallet_nonce), on the real HTTP handlers over the real in-memory session database; the number of "
                    "honoured requests per secret value is counted on the real responses; every recorded trace is validated by "
                    "TLC against TraceOneTime.tla including the real verdict of each request" % ("" if quick else " and 3"))
    vlib.write_evidence(prop, tier, seed, "model_checking", cov, time.time() - t0, len(rep.violations), ASSUMPTIONS)
    print("C05: %d schedules replayed, %d traces validated (%d rejected), model states %d, %.1fs"
          % (len(results), ntr, ntr - acc, states, time.time() - t0))
    return rep.finish()
