"""X11 (extension): PrivRetry.tla <-> the private-transaction payload retrieval loop: v2 protocol.Configure (persistent
"private" notifier), handlePrivateTxRetry, handleTransactionPayloadQuery / handleTransactionPayload, dag notifier (retry budget,
Run at start-up, Finished, GetFailedEvents = payload_fetch_dlq). One real requester over a gated job shelf, two real holders;
TLC behaviours are replayed step by step, an oracle judges the real observables, every run is validated by TLC (TracePrivRetry)."""
import json, os, random, time
from .. import vlib
from ..vlib import Report, Inconclusive

PROPS = ["X11"]

SCEN = {   # scenario -> (members, holders, generation config, trace config)
    "s1": (["p1", "p2"], ["p2"], "PrivRetry.gen.cfg", "PrivRetry.trace.s1.cfg"),
    "s2": (["p1"], ["p1"], "PrivRetry.gen.p1.cfg", "PrivRetry.trace.s2.cfg"),
    "s3": (["p1", "p2"], [], "PrivRetry.gen.none.cfg", "PrivRetry.trace.s3.cfg"),
}
# deviations of the code from the statement: signature -> deviation constant of PrivRetry.tla
EXPECTED = {
    # Resurrect (finished-job-recreated-by-bookkeeping, job-stuck-with-payload-present) was repaired in notifier.notifyNow: the
    # descriptive configurations carry Resurrect = FALSE, a behaviour that shows it again is a VIOLATION
    ("retries-exceed-budget", "restart-of-exhausted-job"): "RunOvershoot",
    ("dlq-lists-live-job", "at-failed-threshold"): "Threshold < Budget",
}
ACTIONS = ["AddTx", "Begin", "End", "Serve", "Deliver", "Lose", "Inject", "Up", "Down", "Crash", "Restart"]


def tlc_ok(module, cfg, what, **kw):
    m = vlib.tlc(module, cfg, **kw)
    if m.error:
        raise Inconclusive("TLC %s (%s): %s" % (cfg, what, m.error))
    if m.violation:
        raise Inconclusive("model %s violates %s:\n%s" % (cfg, m.violation, m.raw[-3000:]))
    return m


def steps_of(m):
    return [p["steps"] for p in m.printed if isinstance(p, dict) and "steps" in p and p["steps"]]


def select(behaviours, n, rnd):
    """Diversity first: bucket by the multiset of actions (with the class of message / injection), round-robin over buckets."""
    items = sorted(behaviours, key=lambda b: json.dumps(b, sort_keys=True))
    rnd.shuffle(items)
    buckets = {}
    for b in items:
        sig = tuple(sorted(set((s["a"], s.get("c", ""), s.get("m", ""), bool(s.get("keep")), bool(s.get("wp"))) for s in b)))
        buckets.setdefault(sig, []).append(b)
    keys = sorted(buckets)
    rnd.shuffle(keys)
    chosen = []
    while len(chosen) < n and keys:
        for k in list(keys):
            if buckets[k]:
                chosen.append(buckets[k].pop())
                if len(chosen) >= n:
                    break
            else:
                keys.remove(k)
    return chosen


def directed_scripts():
    """Behaviours of PrivRetry.tla with the REAL budget (20) and threshold (10), which the small-budget witnesses cannot contain;
    validated as behaviours of the specification by the trace check like every other run."""
    A = lambda t="t1", wp=False: dict(a="AddTx", t=t, wp=wp)
    B = lambda t="t1": dict(a="Begin", t=t)
    E = lambda t="t1": dict(a="End", t=t)
    att = lambda n, t="t1": [x for _ in range(n) for x in (B(t), E(t))]
    up = lambda p, m="auth": dict(a="Up", p=p, m=m)
    out = []
    S = lambda id, scen, steps, fair=True: out.append(dict(id=id, scen=scen, steps=steps, fair=fair))
    # the whole budget without any connection; the dead-letter list; a late payload is still accepted and clears the list
    S("d-exhaust-late-inject", "s1", [A()] + att(20) + [B(), up("p1", "anon"), dict(a="Inject", p="p1", t="t1", c="wrong"), dict(a="Inject", p="p1", t="t1", c="empty"),
                                        dict(a="Inject", p="p1", t="t1", c="good"), B()])
    S("d-exhaust-late-answer", "s1", [A(), up("p2")] + att(19) + [dict(a="Lose", k="q", p="p2", t="t1", c="-")] + att(1) + [B(), dict(a="Serve", p="p2", t="t1", keep=False),
                                        dict(a="Deliver", p="p2", t="t1", c="data", keep=False)])
    # unauthenticated connections only: error attempts, nobody is asked
    S("d-anon-only", "s1", [A(), up("p1", "anon"), up("p2", "anon")] + att(12) + [dict(a="Down", p="p2"), up("p2")] + att(1))
    # reconnects do not reset the count
    S("d-reconnect", "s3", [A()] + att(3) + [up("p1"), dict(a="Down", p="p1"), up("p1")] + att(2) + [dict(a="Down", p="p1"), up("p1", "anon")] + att(2))
    # crash / restart at several counts, also after the budget is spent (Run() attempts the exhausted job again)
    S("d-restart-counts", "s3", [A()] + att(4) + [dict(a="Crash"), dict(a="Restart")] + att(6) + [dict(a="Crash"), dict(a="Restart")] + att(3))
    S("d-restart-exhausted", "s3", [A()] + att(20) + [dict(a="Crash"), dict(a="Restart"), dict(a="Crash"), dict(a="Restart")])
    S("d-restart-at-19", "s3", [A()] + att(18) + [dict(a="Crash"), dict(a="Restart")] + att(1))
    S("d-crash-mid-attempt", "s1", [A(), up("p2"), B(), dict(a="Crash"), dict(a="Restart")] + att(1))
    # the payload arrives while the job is stored but the node is between crash and the first attempt; present at restart
    S("d-restart-present", "s1", [A(), up("p2")] + att(11) + [dict(a="Serve", p="p2", t="t1", keep=False), B(), dict(a="Deliver", p="p2", t="t1", c="data", keep=False),
                                    dict(a="Crash"), dict(a="Restart")])
    # the payload arrives between the check and the book-keeping of an attempt: early, at the threshold, at the LAST attempt
    for n in (1, 12, 19):
        S("d-race-at-%d" % n, "s1", [A(), up("p2")] + att(n) + [dict(a="Serve", p="p2", t="t1", keep=False), B(), dict(a="Deliver", p="p2", t="t1", c="data", keep=False), E()])
    S("d-race-inject-last", "s3", [A(), up("p1", "anon")] + att(19) + [B(), dict(a="Inject", p="p1", t="t1", c="good"), E()])
    # a transaction that arrives with its payload; a foreign one; duplicates of query and answer
    S("d-with-payload", "s1", [A("t1", True), A("t2", True), B("t2"), E("t2"), B(), E()])
    S("d-foreign", "s1", [up("p1"), up("p2"), A("t2"), B("t2"), E("t2"), A(), B(), dict(a="Crash"), dict(a="Restart")])
    S("d-foreign-crash", "s2", [A("t2"), dict(a="Crash"), dict(a="Restart"), A()] + att(2))
    S("d-dups", "s1", [A(), up("p2"), up("p1")] + att(1) + [dict(a="Serve", p="p2", t="t1", keep=True), dict(a="Serve", p="p1", t="t1", keep=False),
                         dict(a="Deliver", p="p2", t="t1", c="data", keep=True), dict(a="Deliver", p="p2", t="t1", c="data", keep=False), dict(a="Serve", p="p2", t="t1", keep=False), B()])
    # both participants connected, only the second one has the payload; only an empty answer comes back first
    S("d-first-has-not", "s1", [A(), up("p1"), up("p2")] + att(1) + [dict(a="Serve", p="p1", t="t1", keep=False), dict(a="Lose", k="q", p="p2", t="t1", c="-")])
    # a payload for a transaction that is not on the DAG yet
    S("d-unknown-tx", "s1", [up("p1", "anon"), dict(a="Inject", p="p1", t="t1", c="good"), A(), B(), E()])
    return out


def run_scripts(binary, scripts, quick):
    inp = dict(scripts=[dict(id=s["id"], steps=s["steps"], member=SCEN[s["scen"]][0], holder=SCEN[s["scen"]][1], fair=s.get("fair", True)) for s in scripts])
    return vlib.run_driver_parallel(binary, inp, shards=(6 if quick else 8), timeout=(200 if quick else 500))


def run(prop, tier, seed, replay=None):
    t0 = time.time()
    rep = Report(prop)
    binary = vlib.build_driver("privretry")
    if replay:
        obj = json.load(open(replay))
        res = vlib.run_driver(binary, obj["input"])
        for r in res:
            print(json.dumps(dict(r, trace=None))[:3000])
            for v in r["violations"]:
                rep.violation(dict(kind=v["kind"], cause=v.get("cause", "")), obj)
        return rep.finish()

    quick = tier == "quick"
    rnd = random.Random(seed)
    states = transitions = 0
    models, cover = [], {}

    # 1. the statement holds of the prescriptive design (exhaustive, small constants), safety and liveness
    safety = "PrivRetry.safety.%s.cfg" % ("quick" if quick else "thorough")
    m = tlc_ok("MCPrivRetry", safety, "prescriptive", workers=6, timeout=900)
    states += m.distinct
    transitions += m.generated
    models.append(dict(cfg=safety, states=m.distinct, transitions=m.generated, depth=m.depth, wall_s=round(m.wall, 1)))
    live_cfg = "PrivRetry.live.quick.cfg" if quick else "PrivRetry.live.cfg"
    lv = tlc_ok("MCPrivRetry", live_cfg, "liveness", workers=6, timeout=900)
    states += lv.distinct
    transitions += lv.generated
    models.append(dict(cfg=live_cfg, states=lv.distinct, transitions=lv.generated, wall_s=round(lv.wall, 1),
                       property="Retrieved, JobFinishes, ForeignFinishes under FairSpec (prescriptive variant)"))
    # vacuity guards: each deviation of the code makes the model violate exactly the property it is about
    guards = [("PrivRetry.dev.resurrect.cfg", "NoStuckJob"), ("PrivRetry.dev.overshoot.cfg", "WithinBudget"), ("PrivRetry.dev.threshold.cfg", "DlqOnlyExhausted")]
    if not quick:
        guards.append(("PrivRetry.live.dev.cfg", "JobFinishes"))
    for cfg, inv in guards:
        d = vlib.tlc("MCPrivRetry", cfg, timeout=600, workers=4)
        got = d.violation
        if got in (None, "temporal") and inv in d.raw[-6000:] and (d.violation == "temporal" or "violated" in d.raw):
            got = inv
        if got != inv:
            raise Inconclusive("vacuity guard: %s must violate %s, TLC says %s / %s" % (cfg, inv, d.violation, d.error))
        models.append(dict(cfg=cfg, expected_violation=inv))
    if not quick:   # every action fires
        mc = tlc_ok("MCPrivRetry", "PrivRetry.safety.quick.cfg", "coverage", workers=4, timeout=900, coverage=True)
        cover = mc.coverage
        missing = [a for a in ACTIONS if not cover.get(a)]
        if missing:
            raise Inconclusive("vacuity: actions never fired in the exhaustive run: %s" % missing)
        models.append(dict(cfg="PrivRetry.safety.quick.cfg", coverage=True, states=mc.distinct))

    # 2. behaviours of the code's variant of the specification
    scripts = []
    n_wit = 0
    per = 70 if quick else 400
    n_sim = 40 if quick else 250
    from concurrent.futures import ThreadPoolExecutor
    pool = ThreadPoolExecutor(max_workers=4)   # 3 x 2 TLC workers + one simulation at a time
    fut = {}
    for scen, (mem, hol, gen_cfg, _) in sorted(SCEN.items()):
        fut[scen] = pool.submit(tlc_ok, "MCPrivRetry", gen_cfg, "generation", workers=2, timeout=900)
        fut[scen, "sim"] = pool.submit(vlib.tlc, "MCPrivRetry", gen_cfg, workers=1, simulate="num=%d" % n_sim, depth=30, seed=seed, timeout=300)
    fut["real"] = pool.submit(vlib.tlc, "MCPrivRetry", "PrivRetry.gen.real.cfg", workers=1, simulate="num=%d" % n_sim, depth=70, seed=seed, timeout=300)
    for scen, (mem, hol, gen_cfg, _) in sorted(SCEN.items()):
        g = fut[scen].result()
        states += g.distinct
        transitions += g.generated
        models.append(dict(cfg=gen_cfg, states=g.distinct, transitions=g.generated, depth=g.depth, wall_s=round(g.wall, 1), variant="descriptive"))
        wit = steps_of(g)
        n_wit += len(wit)
        for i, b in enumerate(select(wit, per, rnd)):
            scripts.append(dict(id="%s-w%04d" % (scen, i), scen=scen, steps=b))
        s = fut[scen, "sim"].result()
        if s.error and "timeout" in s.error:
            raise Inconclusive(s.error)
        for i, b in enumerate(vlib.dedupe_maximal(steps_of(s))[:n_sim]):
            scripts.append(dict(id="%s-s%04d" % (scen, i), scen=scen, steps=b))
    # random behaviours with the real budget and threshold
    s = fut["real"].result()
    if s.error and "timeout" in s.error:
        raise Inconclusive(s.error)
    for i, b in enumerate(vlib.dedupe_maximal(steps_of(s))[:n_sim]):
        scripts.append(dict(id="real-s%04d" % i, scen="s1", steps=b))
    scripts += directed_scripts()
    t_models = time.time() - t0
    results = run_scripts(binary, scripts, quick)
    by_id = {s["id"]: s for s in scripts}
    t_driver = time.time() - t0 - t_models

    # 3. verdicts from the real observables
    nchecks = natt = nq = nstored = ndrift = ninc = 0
    maxr = 0
    seen = set()
    samples = []
    for r in results:
        sc = by_id[r["id"]]
        nchecks += r.get("checks", 0)
        natt += r.get("attempts", 0)
        nq += r.get("queries", 0)
        nstored += r.get("stored", 0)
        maxr = max(maxr, r.get("max_retries", 0))
        ndrift += len(r.get("drift") or [])
        if r.get("error"):
            ninc += 1
            rep.inconclusive.append("script %s: %s" % (r["id"], r["error"]))
            continue
        inp = dict(scripts=[dict(id=sc["id"], steps=sc["steps"], member=SCEN[sc["scen"]][0], holder=SCEN[sc["scen"]][1], fair=sc.get("fair", True))])
        for v in r["violations"]:
            seen.add((v["kind"], v.get("cause", "")))
            rep.violation(dict(kind=v["kind"], cause=v.get("cause", "")), dict(property=prop, violation=v, input=inp))
        if len(samples) < 3 and len(sc["steps"]) >= 8 and r.get("trace"):
            samples.append(dict(script=sc["steps"][:16], real_trace=r["trace"][:12]))
    if ninc <= max(1, len(results) // 100) and len(results) > 50:
        rep.inconclusive = []
    for d in [r["id"] + ": " + x for r in results for x in (r.get("drift") or [])][:5]:
        rep.notes.append("DRIFT: " + d)
    for const in sorted(set(EXPECTED.values())):
        if not any(k in seen for k, v in EXPECTED.items() if v == const):
            rep.notes.append("NOTE: no behaviour showed the deviation %s any more (repaired?): flip it in spec/cfg/PrivRetry.gen*.cfg and PrivRetry.trace.*.cfg" % const)

    # 4. recorded traces of the real code are validated by TLC against the specification
    acc = rejn = 0
    corrupt = os.environ.get("VERIF_X11_CORRUPT")   # binding demonstration only: <script id>:<event index>:<field>
    for scen, (_, _, _, tcfg) in sorted(SCEN.items()):
        good = [r for r in results if r.get("trace") and not r.get("error") and by_id[r["id"]]["scen"] == scen]
        traces = [r["trace"] for r in good]
        if corrupt:
            cid, idx, field = corrupt.split(":")
            for r in good:
                if r["id"] == cid:
                    e = r["trace"][int(idx)]
                    if field == "job":
                        e["job"] = dict(e["job"], t1=e["job"]["t1"] + 1)
                    elif field == "res":
                        e["res"] = "inc" if e.get("res") != "inc" else "err"
                    elif field == "dlq":
                        e["dlq"] = ["t1"] if not e["dlq"] else []
                    print("corrupted %s event %s: %s" % (cid, idx, json.dumps(e)))
        a, rej = vlib.validate_traces("TracePrivRetry", tcfg, traces, timeout=900)
        acc += a
        rejn += len(rej)
        for x in rej[:5]:
            rep.notes.append("DRIFT: trace of %s rejected at event %d %s (%s)" % (good[x["index"]]["id"], x["at"], json.dumps(x["event"])[:300], x["kind"]))
        for x in rej:
            if x["kind"].startswith("invariant:"):
                sc = by_id[good[x["index"]]["id"]]
                rep.violation(dict(kind="trace-" + x["kind"], cause=""), dict(property=prop, trace=traces[x["index"]], rejected=x,
                              input=dict(scripts=[dict(id=sc["id"], steps=sc["steps"], member=SCEN[sc["scen"]][0], holder=SCEN[sc["scen"]][1], fair=sc.get("fair", True))])))
        if len(rej) > 3 and not rep.violations:
            rep.inconclusive.append("at least %d of %d recorded traces (%s) are not behaviours of the specification (spec/code drift)" % (len(rej), len(traces), scen))
    if natt == 0 or nq == 0 or nstored == 0 or maxr < 20:
        rep.inconclusive.append("vacuity: attempts=%d queries=%d payloads stored=%d highest retry count=%d" % (natt, nq, nstored, maxr))

    cov = dict(states=states, transitions=transitions, traces_validated_against_impl=acc + rejn, traces_accepted=acc, traces_rejected=rejn,
               samples=samples or [scripts[0]["steps"]], models=models, behaviours_replayed_on_real_code=len(results),
               witness_behaviours_available=n_wit, oracle_evaluations=nchecks, attempts_observed=natt, queries_observed=nq,
               payloads_stored=nstored, highest_retry_count=maxr, drift_notes=ndrift, inconclusive_scripts=ninc, action_coverage=cover,
               phase_wall_s=dict(models=round(t_models, 1), replay=round(t_driver, 1)), exhaustive=False,
               deviations_seen=sorted("%s/%s" % k for k in seen),
               rule="TLC exhausts the prescriptive PrivRetry configs listed under 'models' (invariants, action properties, liveness under fairness) and shows "
                    "that each deviation constant violates its property; behaviours of the DESCRIPTIVE variant (one witness per distinct terminal state and "
                    "per distinct state departing from the statement, simulation runs with budget 3 and with the real budget 20, directed behaviours) are "
                    "replayed on a real requester node (dag.State + v2 protocol + persistent notifier over a gated job shelf) and two real holders; a "
                    "self-contained oracle judges payload store, job shelf, payload_fetch_dlq and every outgoing query after every step, followed by a fair "
                    "suffix (R1 / budget); every recorded run is validated by TLC against TracePrivRetry.tla (state of the model = projected state of the code)")
    vlib.write_evidence(prop, tier, seed, "model_checking", cov, time.time() - t0, len(rep.violations),
                        ["ECIES / SHA-256 are correct", "the connection list offers exactly the connections the simulator holds (grpc connection manager: X01)",
                         "handlers of the requester run one at a time, except that an attempt is split between its check and its book-keeping write",
                         "Restart runs Run() before any connection exists; a crash does not happen between WritePayload and Finished",
                         "of two identical messages in flight the network keeps one (set semantics); duplicates are explicit steps",
                         "small scope in the exhaustive runs: 2 transactions (one for this node), 2 peers, budget 3-4, <= 2 crashes, <= 3 connection events"])
    return rep.finish()
