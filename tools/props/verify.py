"""C01: Verify.tla <-> vcr/verifier (+ issuer, wallet, resolver stack): TLC enumerates the complete abstract product of
(document attributes x proof format x signer DID-document history x validation time x trust x revocation x flags) and of
(MutationClass x PathClass); every case is built from real objects and judged on the real verifier.
Revocation through status lists: family "status" (own / external list x list length x entry position x fresh / cached copy x entry
point) and family "race" (every interleaving of Revoke, the download of the list and its ageing on the producing node, operations
split where they open their SQL transaction; the nodes are asked about the credentials after every step)."""
import hashlib, json, os, re, time
from concurrent.futures import ThreadPoolExecutor
from .. import vlib
from ..vlib import Report, Inconclusive

PROPS = ["C01"]
SHARDS = 8

# coarse classes of the real error texts, only used to compare the ORDER of the checks with the model (drift notes)
ERR_CLASSES = [
    ("invalid-vc", r"invalid VC"),
    ("revoked", r"revoked"),
    ("untrusted", r"untrusted"),
    ("presenter-not-subject", r"presented by subject|presenter is credential subject"),
    ("holder-not-subject", r"holder must equal"),
    ("not-valid-at-time", r"not valid at|\"exp\" not satisfied|\"nbf\" not satisfied|\"iat\" not satisfied"),
    ("issuer-unresolvable", r"could not validate issuer"),
    ("vm-not-of-issuer", r"verification method is not of issuer"),
    ("key-not-found", r"key not found|unable to resolve valid signing key|unable to find the DID document|deactivated|could not resolve"),
    ("bad-signature", r"invalid signature|could not verify message|invalid proof signature"),
    ("parse", r"^parse:"),
]


def err_class(err):
    for name, pat in ERR_CLASSES:
        if re.search(pat, err or ""):
            return name
    return "other"


def case_id(c, sched=None):
    h = hashlib.sha1(json.dumps([c, sched] if sched else c, sort_keys=True).encode()).hexdigest()[:12]
    return "%s-%s" % (c["fam"], h)


def sched_text(sched):
    return " ".join(s["a"] + ("(%s)" % s["o"] if s.get("o") else "") for s in sched if s["a"] not in ("Choose", "Issue"))


def doc_key(c):
    """cases that use the same documents go to the same driver process"""
    if c["fam"] == "vc":
        return "vc|%s|%s" % (c["fmt"], c["kh"])
    if c["fam"] == "vpsig":
        return "vpsig|%s|%s" % (c["fmt"], c["kh"])
    if c["fam"] == "vpvc":
        return "vpvc|%s" % c["fmt"]
    if c["fam"] == "vpmulti":
        return "vpmulti|%s|%s|%s" % (c["fmt"], c["vcFmt"], c["seq"][0])
    if c["fam"] == "mut":
        return "mut|%s|%s" % (c["kind"], c["fmt"])
    if c["fam"] == "status":
        return "status|%s|%s" % (c["fmt"], c["list"])
    return c["fam"]


def group_key(ci):
    if ci["case"]["fam"] == "race":   # every behaviour has its own issuer and list: spread them over all processes
        return "race|%d" % (int(hashlib.sha1(ci["id"].encode()).hexdigest(), 16) % 16)
    return doc_key(ci["case"])


def shard(cases, n):
    """deterministic, balanced assignment of document groups to n driver processes"""
    groups = {}
    for ci in cases:
        groups.setdefault(group_key(ci), []).append(ci)
    weight = lambda k: len(groups[k]) * (6 if k.startswith("mut") or k == "pairs" else 12 if k.startswith("race") else 2 if k.startswith("vpmulti") else 1)
    parts, load = [[] for _ in range(n)], [0] * n
    for k in sorted(groups, key=lambda k: (-weight(k), k)):
        i = load.index(min(load))
        parts[i] += groups[k]
        load[i] += weight(k)
    return [p for p in parts if p]


def run_sharded(binary, inp, timeout):
    parts = shard(inp["cases"], SHARDS)

    def one(part):
        d = dict(inp)
        d["cases"] = part
        return vlib.run_driver(binary, d, timeout=timeout)
    with ThreadPoolExecutor(max_workers=len(parts)) as ex:
        outs = list(ex.map(one, parts))
    return [r for o in outs for r in o]


def panic_site(text):
    m = re.search(r"nuts-node/([\w/]+)\.(\w+)\(", text or "")
    return m.group(2) if m else "unknown"


def finding_class(fmt, comp):
    """names the kind of accepted tampering (mirrors findingClass of the driver)"""
    if comp["mclass"] == "add-undefined-member":
        return "add-undefined-member"
    if comp["mclass"] == "swap" and comp["pclass"] == "embedded-list" and fmt == "ldp" and comp["efmt"] == "jwt":
        return "swap-embedded-jwt-credential"
    return comp["mclass"]


def mut_key(kind, fmt, comp):
    return (kind, fmt, comp["where"], comp["efmt"], comp["mclass"], comp["pclass"])


def judge(rep, prop, inp, by_id, results, stats, samples, replay_obj=None):
    """Evaluates the property statement on the real verdicts. by_id: id -> {case, req, impl}.
    replay_obj: when re-executing a saved replay, that object is what a violation refers to again."""
    base_inp = {k: v for k, v in inp.items() if k not in ("cases", "mut_req")}
    # requirement of every abstract mutation class (for the components of two-field mutations)
    mut_req = dict(inp.get("mut_req") or {})
    for ci in by_id.values():
        c = ci["case"]
        if c.get("fam") == "mut":
            mut_req["|".join(mut_key(c["kind"], c["fmt"], c))] = ci["req"]
    for r in results:
        ci = by_id.get(r["id"])
        stats["evaluations"] += r.get("evals", 0)
        if ci is None and r["id"] != "only":
            continue
        c = ci["case"] if ci else {}
        req, impl = (ci or {}).get("req", "reject"), (ci or {}).get("impl", "")
        one_case = dict(base_inp, cases=[ci]) if ci else inp
        if r.get("error"):
            if r["error"].startswith("OWN-OUTPUT") or "own revocation refused" in r["error"]:
                rep.violation(dict(kind="own-output-rejected", family=c.get("fam", "mut"), format=c.get("fmt", "")),
                              replay_obj or dict(property=prop, violation=r["error"], input=one_case))
            else:
                rep.inconclusive.append("case %s: %s" % (r["id"], r["error"][:300]))
            continue
        # ---- vc / vpsig / vpvc families
        for run in r.get("runs") or []:
            v = run["verdict"]
            stats["nonmut_runs"] += 1
            if run.get("note", "").startswith("BUILD"):
                rep.inconclusive.append("case %s: %s" % (r["id"], run["note"][:300]))
                continue
            cls = "ok" if v.get("accept") else err_class(v.get("err"))
            replay = replay_obj or dict(property=prop, input=dict(one_case, method_mode="all"), observed=run, required=req)
            if v.get("panic"):
                rep.violation(dict(kind="panic", site=panic_site(v["panic"])), replay)
                continue
            if v.get("accept") and v.get("returned_invalid"):
                # the node hands out, as verified, a credential that its own Verify refuses
                rep.violation(dict(kind="returned-unverified-credential", family=c["fam"], format=c["fmt"], entry=c.get("entry", "verifier")),
                              replay_obj or dict(replay, returned_invalid=v["returned_invalid"][:3]))
            if v.get("accept") and req == "reject":
                failing = sorted(ci.get("failing") or [])
                sig = dict(kind="accepted-invalid", family=c["fam"], format=c["fmt"], failing="+".join(failing))
                if "unauthorised-key" in failing:   # which resolver, which history and which signer let the key through
                    sig.update(method=run["method"], kh=c["kh"], signer=c.get("vm", "issuer"))
                if c.get("presenter", "subject") != "subject":
                    sig.update(presenter=c["presenter"])
                if str(c.get("vcState", "")).startswith("forged"):
                    sig.update(carried=c["vcState"])
                if c["fam"] == "status":   # whose list, how long, where the entry is (fresh / cached copy and entry point: see the replay)
                    sig.update(list=c["list"], size=c["size"], pos=c["pos"])
                if c.get("seq"):   # first credential that must not be there: class, position, what stands before it
                    bad = [i for i, e in enumerate(c["seq"]) if e in ("tampered", "tampered2", "stripped", "expired", "other-subject")]
                    if bad:
                        i = bad[0]
                        pos = "first" if i == 0 else "last" if i == len(c["seq"]) - 1 else "middle"
                        sig.update(carried="%s@%s" % (c["seq"][i], pos), entry=c.get("entry", "verifier"))
                rep.violation(sig, replay)
            elif not v.get("accept") and req == "accept":
                rep.violation(dict(kind="own-output-rejected", family=c["fam"], format=c["fmt"], reason=cls), replay)
            elif (impl == "ok") != bool(v.get("accept")):
                stats["drift_verdict"] += 1
                if len(stats["drift_samples"]) < 5:
                    stats["drift_samples"].append("model predicts %s, code says %s for %s" % (impl, v.get("err") or "accept", json.dumps(c, sort_keys=True)))
            elif impl != "ok" and cls != impl:
                stats["drift_reason"] += 1
                stats["drift_reason_pairs"][impl + " / " + cls] = stats["drift_reason_pairs"].get(impl + " / " + cls, 0) + 1
            if len(samples) < 3 and c["fam"] not in [s.get("case", {}).get("fam") for s in samples]:
                samples.append(dict(case=c, required=req, model=impl, method=run["method"], real_verdict=v))
        # ---- family "race": what the nodes said about the two credentials (and about every list handed out) after each step
        for d in r.get("drift") or []:
            stats["drift_reason"] += 1
            stats["drift_reason_pairs"]["race: " + d] = stats["drift_reason_pairs"].get("race: " + d, 0) + 1
        for o in r.get("obs") or []:
            v = o["verdict"]
            stats["race_answers"] += 1
            replay = replay_obj or dict(property=prop, input=dict(one_case, method_mode="all"), observed=o, schedule=sched_text(ci.get("sched") or []))
            if v.get("panic"):
                rep.violation(dict(kind="panic", site=panic_site(v["panic"])), replay)
            elif o["source"] == "served-list":
                # a status list the node's own issuer hands out verifies on any node that can resolve the signer
                if not v.get("accept"):
                    rep.violation(dict(kind="own-output-rejected", family="race", format=c["fmt"], what="status-list", reason=err_class(v.get("err"))), replay)
            elif o["acked"] and v.get("accept"):
                # Revoke had returned success before the node was asked: "is not revoked" does not hold
                rep.violation(dict(kind="accepted-invalid", family="race", format=c["fmt"], failing="revoked", node=o["node"], source=o["source"]), replay)
            elif not o["begun"] and not v.get("accept"):
                rep.violation(dict(kind="own-output-rejected", family="race", format=c["fmt"], node=o["node"], reason=err_class(v.get("err"))), replay)
            if o["acked"] and len(samples) < 6 and "race" not in [s.get("case", {}).get("fam") for s in samples]:
                samples.append(dict(case=c, schedule=sched_text(ci.get("sched") or []), required=req, model=impl, answer=o))
        # ---- mutation families
        m = r.get("mut")
        if m:
            stats["mut_instances"] += m["instances"]
            stats["mut_executed"] += m["executed"]
            stats["mut_rejected"] += m["rejected"]
            stats["mut_same_view"] += m["accepted_same_view"]
            stats["mut_paths"] += m.get("paths", 0)
            if ci and c.get("fam") == "mut":
                if m["instances"] == 0:
                    stats["mut_unrealised"] += 1
                else:
                    stats["mut_realised"] += 1
            for p in m.get("panics") or []:
                sel = dict(doc=p["doc"], method=p["method"], path=p["path"], op=p["op"])
                if p.get("pair"):
                    sel["pair"] = p["pair"]
                rep.violation(dict(kind="panic", site=panic_site(p["panic"])),
                              replay_obj or dict(property=prop, input=dict(base_inp, cases=[], only=sel), observed=p))
            if m["accepted_changed_n"]:
                semantic = 0
                for h in m["accepted_changed"]:
                    kind, fmt = h["doc"].split("-")[0], h["doc"].split("-")[1]
                    sel = dict(doc=h["doc"], method=h["method"], path=h["path"], op=h["op"])
                    if h.get("pair"):
                        sel["pair"] = h["pair"]
                    rp = replay_obj or dict(property=prop, input=dict(base_inp, cases=[], only=sel, mut_req=mut_req), observed=h)
                    if h.get("components"):
                        # a two-field mutation must be refused if one of its components ALONE changes what the node reports
                        # and belongs to a class the statement protects
                        for comp in h["components"]:
                            if comp["changes_view"] and mut_req.get("|".join(mut_key(kind, fmt, comp)), "any") == "reject":
                                semantic += 1
                                k = "%s/%s/multi" % (fmt, finding_class(fmt, comp))
                                stats["semantic_classes"][k] = stats["semantic_classes"].get(k, 0) + 1
                                rep.violation(dict(kind="tamper-accepted", format=fmt, mutation=finding_class(fmt, comp), where="multi"), rp)
                    elif req == "reject" or (r["id"] == "only" and mut_req.get("|".join(
                            mut_key(kind, fmt, dict(where=h.get("where", ""), efmt=h.get("efmt", ""), mclass=h.get("mclass", ""), pclass=h.get("pclass", "")))), "reject") == "reject"):
                        semantic += 1
                        k = "%s/%s/%s%s" % (fmt, h["class"], "embedded " if h.get("where") == "embedded" else "", h.get("pclass") or "")
                        stats["semantic_classes"][k] = stats["semantic_classes"].get(k, 0) + 1
                        rep.violation(dict(kind="tamper-accepted", format=fmt, mutation=h["class"], where=h.get("pclass") or c.get("pclass") or ""), rp)
                if semantic:
                    stats["mut_accepted_semantic"] += m["accepted_changed_n"]
                else:
                    stats["mut_accepted_unconstrained"] += m["accepted_changed_n"]
                    key = "%s/%s" % (c.get("mclass", "pairs"), c.get("pclass", ""))
                    stats["unconstrained_classes"][key] = stats["unconstrained_classes"].get(key, 0) + m["accepted_changed_n"]
            if impl == "ok" and m["executed"] and not m["accepted_changed_n"] and not m["accepted_same_view"]:
                stats["drift_verdict"] += 1
            if m.get("sample") and sum(1 for s in samples if "mutant" in s) < 2:
                samples.append(dict(case=c, required=req, model=impl, mutant=m["sample"]))


def new_stats():
    return dict(evaluations=0, nonmut_runs=0, drift_verdict=0, drift_reason=0, drift_reason_pairs={}, drift_samples=[],
                mut_instances=0, mut_executed=0, mut_rejected=0, mut_same_view=0, mut_paths=0, mut_unrealised=0,
                mut_realised=0, mut_accepted_semantic=0, mut_accepted_unconstrained=0, unconstrained_classes={}, semantic_classes={}, race_answers=0)


def run(prop, tier, seed, replay=None):
    t0 = time.time()
    rep = Report(prop)
    binary = vlib.build_driver("verify")
    stats, samples = new_stats(), []
    if replay:
        obj = json.load(open(replay))
        inp = obj["input"]
        by_id = {ci["id"]: ci for ci in inp.get("cases") or []}
        res = vlib.run_driver(binary, inp, timeout=300)
        for r in res:
            print(json.dumps(r)[:3000])
        judge(rep, prop, inp, by_id, res, stats, samples, replay_obj=obj)
        return rep.finish()

    quick = tier == "quick"
    # 1. the prescriptive variant (both deviations repaired) satisfies the statement on the complete product
    # (the prescriptive check and the generation run explore the same graph: run them side by side, 4 + 4 TLC workers)
    race_cfg = "Verify.c01.race.%s.cfg" % ("quick" if quick else "thorough")
    with ThreadPoolExecutor(max_workers=3) as ex:
        f_chk = ex.submit(vlib.tlc, "MCVerify", "Verify.c01.check.cfg", workers=4, timeout=600, coverage=not quick)
        f_gen = ex.submit(vlib.tlc, "MCVerify", "Verify.c01.gen.cfg", workers=4, timeout=600)
        f_race = ex.submit(vlib.tlc, "MCVerify", race_cfg, workers=2, timeout=600)
        chk, gen, race = f_chk.result(), f_gen.result(), f_race.result()
    if chk.error:
        raise Inconclusive("TLC Verify.c01.check.cfg: %s" % chk.error)
    if chk.violation:
        raise Inconclusive("prescriptive model violates %s:\n%s" % (chk.violation, chk.raw[-2500:]))
    models = [dict(cfg="Verify.c01.check.cfg", states=chk.distinct, transitions=chk.generated, depth=chk.depth, wall_s=round(chk.wall, 1))]
    if not quick:
        missing = [a for a in ("ChooseAny", "Issue", "Forge", "Present", "Mutate", "Verify", "IssueExt", "SetBit", "Age", "OpBegin", "OpEnd",
                               "Download", "Finish") if not chk.coverage.get(a)]
        if missing:
            raise Inconclusive("vacuity: actions never fired: %s" % missing)
        dev = vlib.tlc("MCVerify", "Verify.c01.deviation.cfg", workers=4, timeout=300)
        if dev.violation != "TamperEvident":
            raise Inconclusive("vacuity: the descriptive variant is expected to violate TamperEvident, TLC says %s %s" % (dev.violation, dev.error))
        models.append(dict(cfg="Verify.c01.deviation.cfg", states=dev.distinct, transitions=dev.generated, expected_violation="TamperEvident"))
        dev2 = vlib.tlc("MCVerify", "Verify.c01.deviation2.cfg", workers=4, timeout=300)
        if dev2.violation != "AcceptOnlyIf":
            raise Inconclusive("vacuity: the didstore variant is expected to violate AcceptOnlyIf, TLC says %s %s" % (dev2.violation, dev2.error))
        models.append(dict(cfg="Verify.c01.deviation2.cfg", states=dev2.distinct, transitions=dev2.generated, expected_violation="AcceptOnlyIf"))
        for cfg, inv, what in (("Verify.c01.deviation3.cfg", "AcceptOnlyIf", "a verifier that decodes only the minimum length of a status list"),
                               ("Verify.c01.deviation4.cfg", "RevokedRejected", "a status list built from revocations read before the row lock")):
            d = vlib.tlc("MCVerify", cfg, workers=4, timeout=300)
            if d.violation != inv:
                raise Inconclusive("vacuity: %s is expected to violate %s, TLC says %s %s" % (what, inv, d.violation, d.error))
            models.append(dict(cfg=cfg, states=d.distinct, transitions=d.generated, expected_violation=inv))
    # 2. the descriptive variant (the code as it is) prints every case with the verdict required by the statement
    if not gen.ok:
        raise Inconclusive("generation run failed: %s %s" % (gen.violation, gen.error))
    models.append(dict(cfg="Verify.c01.gen.cfg", states=gen.distinct, transitions=gen.generated, cases=len(gen.printed), wall_s=round(gen.wall, 1)))
    cases = []
    for p in gen.printed:
        cases.append(dict(id=case_id(p["case"]), case=p["case"], req=p["req"], impl=p["impl"], failing=p.get("failing") or []))
    # family "race": the behaviours of the status list state machine (prescriptive = the code as it is: the invariants hold on all of them)
    if not race.ok:
        raise Inconclusive("TLC %s: %s %s\n%s" % (race_cfg, race.violation, race.error, race.raw[-1500:]))
    models.append(dict(cfg=race_cfg, states=race.distinct, transitions=race.generated, behaviours=len(race.printed), wall_s=round(race.wall, 1)))
    n_race = 0
    for p in race.printed:
        # the proof format of the two credentials is independent of the schedule: quick runs every schedule in one (seeded) format
        if quick and int(hashlib.sha1(("%d|%s" % (seed, json.dumps(p["sched"], sort_keys=True))).encode()).hexdigest(), 16) % 2 != (p["case"]["fmt"] == "jwt"):
            continue
        n_race += 1
        cases.append(dict(id=case_id(p["case"], p["sched"]), case=p["case"], req=p["req"], impl=p["impl"], failing=p.get("failing") or [], sched=p["sched"]))
    if not n_race:
        raise Inconclusive("%s printed no behaviour" % race_cfg)
    n_enumerated = len(cases)
    if quick:
        # presentations with THREE credentials: a seeded half of the 2 x 2 x 2 x 729 sequences (all of them in thorough);
        # every other family and all two-credential presentations are complete in both tiers
        keep = lambda c: len(c["case"].get("seq") or []) < 3 or int(hashlib.sha1(("%d|%s" % (seed, c["id"])).encode()).hexdigest(), 16) % 2 == 0
        cases = [c for c in cases if keep(c)]
    cases.sort(key=lambda x: x["id"])
    if len({c["id"] for c in cases}) != len(cases) or not cases:
        raise Inconclusive("case enumeration is not a set of %d distinct cases" % len(cases))
    cases.append(dict(id="pairs", case=dict(fam="pairs"), req="reject", impl="rejected"))
    cases.append(dict(id="statuslist", case=dict(fam="statuslist", kind="vc", fmt="ldp", kh="stable"), req="accept", impl="ok", failing=[]))
    by_id = {c["id"]: c for c in cases}

    # 3. every case on the real code
    inp = dict(seed=seed, cases=cases,
               method_mode="one" if quick else "all",
               mut_fraction=0.5 if quick else 1.0, mut_min=3,
               pairs=100 if quick else 600)
    results = run_sharded(binary, inp, timeout=400 if quick else 1500)
    got = {r["id"] for r in results}
    if got != set(by_id):
        raise Inconclusive("driver returned %d of %d cases" % (len(got), len(by_id)))

    # 4. verdicts
    judge(rep, prop, inp, by_id, results, stats, samples)
    n_nonmut = sum(1 for c in cases if c["case"]["fam"] in ("vc", "vpsig", "vpvc", "vpmulti", "status"))
    if len(rep.inconclusive) <= 2:
        rep.inconclusive = []
    if stats["drift_verdict"] > max(5, len(cases) // 50) and not rep.violations:
        rep.inconclusive.append("%d cases where the model's pipeline and the code disagree on accept/reject without the statement "
                                "deciding (spec/code drift): %s" % (stats["drift_verdict"], stats["drift_samples"][:2]))
    for s in stats["drift_samples"][:3]:
        rep.notes.append("DRIFT: " + s[:400])
    if stats["drift_reason"]:
        rep.notes.append("DRIFT: %d rejected cases are refused by another check than the model names (same verdict): %s" %
                         (stats["drift_reason"], json.dumps(stats["drift_reason_pairs"], sort_keys=True)[:400]))
    fam_counts = {}
    for c in cases:
        k = "%s/%s" % (c["case"]["fam"], c["req"])
        fam_counts[k] = fam_counts.get(k, 0) + 1
    cov = dict(
        evaluations=stats["evaluations"],
        distinct_nontrivial=stats["nonmut_runs"] + stats["mut_executed"] - stats["mut_same_view"] + n_race,
        rule="TLC enumerates the complete abstract product of Verify.tla (families vc, vpsig, vpvc, vpmulti [presentations carrying every "
             "sequence of 2..3 credentials over 9 element classes incl. same-id tampered copies, through verifier.VerifyVP and the REST "
             "handler; the credentials handed out as verified are re-verified one by one]: document attributes x proof format x "
             "signer DID-document history x validation time x trust x revocation x flags; family mut: MutationClass x PathClass x "
             "format x position; family status: own / external status list x list length (16384, 16385, 32768, 131072 bytes) x entry position "
             "(first, last of a minimum list, first beyond it, last) x revoked x fresh / cached copy x entry point (Verify, REST, carried by a "
             "presentation)); each abstract case is one distinct TLC behaviour. Family race: every maximal behaviour of the status-list state "
             "machine (Revoke x download x ageing of the stored list x a download by a verifier node; operations stopped where they open their "
             "SQL transaction) is replayed on the real issuer with its own issuer DID and list, and after EVERY step the producing node (and at "
             "downloads the verifying node, fresh and cached) is asked about both credentials: one that Revoke has acknowledged must be refused, "
             "one never revoked must verify, every list handed out must verify. Every non-mutation case is built from real objects "
             "(issuer.Issue / forged by an attacker key / wallet.BuildPresentation / issuer.Revoke / status list) on node A and verified "
             "by the real verifier of node B that holds the scripted DID history (one DID method per case in quick, all in thorough). "
             "Every abstract mutation case is realised by the concrete (document, path, operator) triples of its class over the base "
             "documents (quick: seeded sample touching every concrete path of the class, thorough: all), plus random two-field "
             "mutations. distinct_nontrivial = real verifier runs of distinct (case, DID method) pairs + distinct executed mutants "
             "(each mutant differs from its original document in its serialisation; mutants whose parsed form equals the original "
             "are executed but carry no requirement).",
        samples=samples,
        exhaustive=False,
        states=sum(m["states"] for m in models), transitions=sum(m["transitions"] for m in models),
        models=models, abstract_cases=len(cases) - 2, abstract_cases_enumerated_by_tlc=n_enumerated, abstract_cases_by_family_and_requirement=fam_counts,
        nonmutation_cases=n_nonmut, nonmutation_runs=stats["nonmut_runs"],
        race_behaviours_replayed=n_race, race_answers_judged=stats["race_answers"],
        mutation_classes_realised=stats["mut_realised"], mutation_classes_without_concrete_instance=stats["mut_unrealised"],
        concrete_mutants_available=stats["mut_instances"], concrete_mutants_executed=stats["mut_executed"],
        member_x_operatorclass_pairs_touched=stats["mut_paths"],
        mutants_rejected=stats["mut_rejected"], mutants_accepted_same_parsed_form=stats["mut_same_view"],
        mutants_accepted_semantic=stats["mut_accepted_semantic"],
        mutants_accepted_unconstrained=stats["mut_accepted_unconstrained"],
        unconstrained_classes_accepted=stats["unconstrained_classes"],
        accepted_tampering_examples_by_class=stats["semantic_classes"],
        drift_verdict=stats["drift_verdict"], drift_reason=stats["drift_reason"],
        known_findings_reproduced=sorted(rep.known),
        action_coverage=chk.coverage,
    )
    vlib.write_evidence(prop, tier, seed, "exploration", cov, time.time() - t0, len(rep.violations), [
        "ECDSA P-256 / SHA-256 / jwx / json-gold URDNA2015 are trusted; signatures are uninterpreted in the model",
        "time points are one hour apart: equal time stamps and the 5 s skew window are not explored",
        "DID documents are held locally (didstore for did:nuts, SQL did_document_version for did:web, did:jwk); did:web over HTTPS and did:x509 are not exercised",
        "JSON-LD operators that keep the RDF dataset (array order, duplicate elements, singleton arrays) and edits of @context carry no requirement",
        "a mutant whose parsed form (go-did struct, re-marshalled) equals the original is the same document for the node",
        "validation with checkSignature=false (wallet listing) carries no signature requirement",
        "status lists: SQL transactions are atomic steps (sqlite, one connection); an operation is stopped only where it opens its transaction, "
        "so every read it made before lies before a concurrent operation and every read inside the transaction after it",
        "a verifier node that holds a copy of a list younger than 15 minutes made BEFORE the revocation is not asked (freshness is C11)",
        "an unrevoked credential of an EXTERNAL issuer carries no requirement (the converse of the statement speaks about the node's own output)",
    ])
    return rep.finish()
