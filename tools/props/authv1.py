"""X10 (extension): AuthV1.tla <-> the legacy (v1) authentication / authorization flows: contract signing sessions
(employee identity means, dummy means), the notary (contract validity, organisation binding), the v1 OAuth JWT-bearer
grant (authorization server) and token introspection, through the real HTTP surface of auth/api/auth/v1 on a whole
in-process node.  TLC proves P1-P4 for the prescriptive variant; behaviours of the code's variant are replayed on the
node, a self-contained oracle judges every answer, every recorded run is validated by TLC against TraceAuthV1.tla."""
import json, os, random, time
from concurrent.futures import ThreadPoolExecutor
from .. import vlib
from ..vlib import Report, Inconclusive

PROPS = ["X10"]
MODES = ["grant", "sess", "vp"]

# deviations of the code from the statement: signature -> deviation constant of AuthV1.tla
EXPECTED = {
    # SignerBound (signer=otherdid) and ExpRequired (win=noexp) were repaired in auth/services/oauth/authz_server.go: TRUE in the
    # descriptive configurations, a token for such a grant is a VIOLATION again
    ("token-for-defective-grant", "usi=othersigner"): "IdentityBound",
    ("session-never-evicted", ""): "EvictionRuns",
    ("foreign-token-active", "grant"): "TokenTyped",
}
ACTIONS = {"grant": ["Grant", "Introspect", "IntrospectForeign", "Tick"], "sess": ["Create", "Page", "Submit", "Poll", "Age", "Evict"],
           "vp": ["Sign", "SetTrust", "Verify"]}


def tlc_ok(cfg, what, **kw):
    kw.setdefault("workers", 2)
    m = vlib.tlc("MCAuthV1", cfg, **kw)
    if m.error:
        raise Inconclusive("TLC %s (%s): %s" % (cfg, what, m.error))
    if m.violation:
        raise Inconclusive("model %s violates %s:\n%s" % (cfg, m.violation, m.raw[-3000:]))
    return m


def behaviours(m):
    return [p["steps"] for p in m.printed if isinstance(p, dict) and "steps" in p]


def ndef(req, tables):
    return sum(1 for a, v in req.items() if v in tables["Defects"][a])


def select_grant(beh, quick, rnd, tables):
    """Every request at least once (quick: every single defect / alternative, a sample of the pairs); the behaviours with a
    token (they exercise introspection before / after expiry) as far as the budget allows."""
    items = sorted(beh, key=lambda b: json.dumps(b, sort_keys=True))
    rnd.shuffle(items)
    by_req, with_token = {}, []
    for b in items:
        g = [s for s in b if s["a"] == "Grant"]
        if not g:
            continue
        k = json.dumps(g[0]["req"], sort_keys=True)
        if any(s["res"] == "issued" for s in g):
            with_token.append(b)
        by_req.setdefault(k, b)
    singles = [b for k, b in by_req.items() if ndef(json.loads(k), tables) <= 1]
    pairs = [b for k, b in by_req.items() if ndef(json.loads(k), tables) == 2]
    chosen = singles + (pairs[:150] if quick else pairs)
    # token behaviours: diversity over (request, order of the operations)
    seen, tok = set(), []
    for b in with_token:
        sig = (json.dumps([s["req"] for s in b if s["a"] == "Grant"], sort_keys=True), tuple((s["a"], s.get("f", "")) for s in b))
        if sig not in seen:
            seen.add(sig)
            tok.append(b)
    chosen += tok[:(60 if quick else 400)]
    return chosen


def select_generic(beh, n, rnd):
    items = sorted(beh, key=lambda b: json.dumps(b, sort_keys=True))
    rnd.shuffle(items)
    buckets = {}
    for b in items:
        sig = tuple(sorted(set((s["a"], s.get("acc", ""), s.get("sec", ""), s.get("m", ""), s.get("tc", ""), s.get("mu", ""), s.get("e", "")) for s in b)))
        buckets.setdefault(sig, []).append(b)
    keys = sorted(buckets)
    rnd.shuffle(keys)
    chosen = []
    while len(chosen) < n and keys:
        for k in list(keys):
            if buckets[k]:
                chosen.append(buckets[k].pop())
                if len(chosen) >= n:
                    break
            else:
                keys.remove(k)
    return chosen


def directed():
    """Behaviours of AuthV1.tla a sample of witnesses may miss (validated as behaviours of the spec like every other run)."""
    P, Po, A = dict(a="Page"), dict(a="Poll"), dict(a="Age")
    S = lambda acc, sec: dict(a="Submit", acc=acc, sec=sec)
    C = lambda m: dict(a="Create", m=m)
    sess = [
        [C("employeeid"), P, S("true", "ok"), Po, Po, Po],
        [C("employeeid"), P, S("true", "ok"), S("false", "ok"), Po, Po, Po],
        [C("employeeid"), P, S("false", "ok"), S("true", "ok"), Po, Po],
        [C("employeeid"), P, S("true", "bad"), S("true", "ok"), Po, Po],
        [C("employeeid"), P, S("true", "none"), Po, Po],
        [C("employeeid"), S("true", "ok"), P, P, S("true", "ok"), Po],
        [C("employeeid"), P, A, S("true", "ok"), Po, Po],
        [C("employeeid"), A, P, S("true", "ok"), Po],
        [C("employeeid"), P, S("true", "ok"), A, A, Po, Po],
        [C("employeeid"), P, S("junk", "ok"), Po, S("true", "ok"), Po],
        [C("employeeid"), P, A, A, Po],
        [C("dummy"), Po, Po, Po, Po],
    ]
    G = lambda **kw: dict(a="Grant", req=dict(dict(signer="ok", iss="ok", sub="ok", aud="ok", win="ok", usi="ok", vcs="ok", pou="ok"), **kw))
    I, T = lambda k: dict(a="Introspect", k=k), dict(a="Tick")
    F = lambda f: dict(a="IntrospectForeign", f=f)
    grant = [
        [G(), I(1), F("tampered"), F("forged"), T, I(1)],
        [G(usi="none", vcs="none"), G(usi="dummy", vcs="other", ), I(1), I(2), T, I(2), I(1)],
        [G(win="short"), I(1), F("grant"), F("garbage"), T, I(1), F("grant")],
        [G(pou="svc2"), I(1), T, I(1)],
    ]
    V = lambda tc, mu="none": dict(a="Verify", tc=tc, mu=mu)
    vp = [[dict(a="Sign", e="R"), V("now"), V("beforeFrom"), V("beforeSign"), V("inside"), V("atTo"), V("afterTo"),
           dict(a="SetTrust", b=False), V("now"), V("inside"), dict(a="SetTrust", b=True), V("now"), V("inside", "means-swap")],
          [dict(a="Sign", e="W"), V("now"), V("inside"), V("atTo")], [dict(a="Sign", e="U"), V("now"), V("inside")]]
    return dict(grant=grant, sess=sess, vp=vp)


def run(prop, tier, seed, replay=None):
    t0 = time.time()
    rep = Report(prop)
    binary = vlib.build_driver("authv1")
    if replay:
        obj = json.load(open(replay))
        res = vlib.run_driver(binary, obj["input"])
        for r in res:
            print(json.dumps(dict(r, trace=None))[:3000])
            for v in r["violations"]:
                rep.violation(dict(kind=v["kind"], cause=v.get("cause", "")), obj)
        return rep.finish()

    quick = tier == "quick"
    rnd = random.Random(seed)
    corrupt = os.environ.get("VERIF_X10_CORRUPT")   # binding demonstration only: id of the script whose trace is corrupted
    states = transitions = 0
    models, cover = [], {}
    pool = ThreadPoolExecutor(max_workers=3)
    fut = {}
    tname = "quick" if quick else "thorough"
    for mode in MODES:
        fut[mode, "check"] = pool.submit(tlc_ok, "AuthV1.%s.%s.cfg" % (mode, tname), "prescriptive", timeout=600)
        fut[mode, "gen"] = pool.submit(tlc_ok, "AuthV1.%s.gen.cfg" % mode, "generation", timeout=600)
        if not quick:
            fut[mode, "cover"] = pool.submit(tlc_ok, "AuthV1.%s.quick.cfg" % mode, "coverage", timeout=600, coverage=True)
    fut["live"] = pool.submit(tlc_ok, "AuthV1.sess.live.cfg", "liveness", timeout=600)
    fut["sim"] = pool.submit(vlib.tlc, "MCAuthV1", "AuthV1.sess.sim.cfg", workers=1, simulate="num=%d" % (150 if quick else 1500), depth=14, seed=seed, timeout=300)
    tables = None
    scripts = {}
    n_wit = 0
    dd = directed()
    for mode in MODES:
        m = fut[mode, "check"].result()
        states += m.distinct
        transitions += m.generated
        models.append(dict(cfg="AuthV1.%s.%s.cfg" % (mode, tname), states=m.distinct, transitions=m.generated, depth=m.depth, wall_s=round(m.wall, 1), variant="prescriptive"))
        if tables is None:
            tables = next(p["tables"] for p in m.printed if isinstance(p, dict) and "tables" in p)
        if not quick:
            mc = fut[mode, "cover"].result()
            for k, v in mc.coverage.items():
                cover[k] = cover.get(k, 0) + v
        g = fut[mode, "gen"].result()
        states += g.distinct
        transitions += g.generated
        models.append(dict(cfg="AuthV1.%s.gen.cfg" % mode, states=g.distinct, transitions=g.generated, depth=g.depth, wall_s=round(g.wall, 1), variant="descriptive"))
        beh = behaviours(g)
        n_wit += len(beh)
        if mode == "grant":
            chosen = select_grant(beh, quick, rnd, tables)
        elif mode == "sess":
            s = fut["sim"].result()
            if s.error and "timeout" in s.error:
                raise Inconclusive(s.error)
            sim = vlib.dedupe_maximal(behaviours(s))
            chosen = select_generic(beh, 120 if quick else 100000, rnd) + sim[:(60 if quick else 600)]
        else:
            chosen = select_generic(beh, 150 if quick else 100000, rnd)
        scripts[mode] = [dict(id="%s-w%04d" % (mode, i), steps=b) for i, b in enumerate(chosen)]
        scripts[mode] += [dict(id="%s-d%02d" % (mode, i), steps=b) for i, b in enumerate(dd[mode])]
    live = fut["live"].result()
    states += live.distinct
    transitions += live.generated
    models.append(dict(cfg="AuthV1.sess.live.cfg", states=live.distinct, transitions=live.generated, property="EventuallyGone under FairSpec (prescriptive variant)"))
    t_models = time.time() - t0

    # replay on the real node: one driver run per mode (own node each), the three modes at the same time
    def shard(mode, part, timeout):
        """One driver process = one node. A node that does not come up (its free ports were taken by a node of another
        check started at the same moment) is started again; scripts that ended with an error are run once more."""
        inp = dict(mode=mode, scripts=part)
        if corrupt:
            inp["corrupt"] = corrupt
        last = None
        for attempt in range(3):
            try:
                res = vlib.run_driver(binary, inp, timeout=timeout)
                break
            except Inconclusive as ex:
                last = ex
                if "0 results written" not in str(ex):
                    raise
                time.sleep(2 + attempt * 3)
        else:
            raise last
        bad = {r["id"] for r in res if r.get("error")}
        if bad and len(bad) <= 20:
            again = vlib.run_driver(binary, dict(inp, scripts=[x for x in part if x["id"] in bad]), timeout=timeout)
            res = [r for r in res if r["id"] not in bad] + again
        return res

    def drive(mode):
        n = 1 if mode == "sess" else (2 if quick else 3)
        items = scripts[mode]
        parts = [items[i::n] for i in range(n)]
        with ThreadPoolExecutor(max_workers=n) as ex2:
            outs = list(ex2.map(lambda p: shard(mode, p, 200 if quick else 560), parts))
        return [r for o in outs for r in o]
    with ThreadPoolExecutor(max_workers=3) as ex:
        results = dict(zip(MODES, ex.map(drive, MODES)))
    t_driver = time.time() - t0 - t_models

    by_id = {s["id"]: (mode, s) for mode in MODES for s in scripts[mode]}
    nchecks = ndrift = ninc = 0
    seen = set()
    samples = []
    covered_mut = set()
    reqs_seen = set()
    for mode in MODES:
        for r in results[mode]:
            nchecks += r.get("checks", 0)
            ndrift += len(r.get("drift") or [])
            for c in r.get("covered") or []:
                covered_mut.add(c)
            _, sc = by_id[r["id"]]
            if r.get("error"):
                ninc += 1
                rep.inconclusive.append("script %s: %s" % (r["id"], r["error"]))
                continue
            for e in r.get("trace") or []:
                if e.get("ev") == "grant":
                    reqs_seen.add(json.dumps(e["req"], sort_keys=True))
            for v in r["violations"]:
                sig = dict(kind=v["kind"], cause=v.get("cause", ""))
                seen.add((v["kind"], v.get("cause", "")))
                rep.violation(sig, dict(property=prop, violation=v, input=dict(mode=mode, scripts=[sc])))
            if len(samples) < 4 and len(sc["steps"]) >= 4 and r.get("trace") and not any(x["script"][0]["a"] == sc["steps"][0]["a"] for x in samples):
                samples.append(dict(script=sc["steps"], real_trace=r["trace"][:10]))
    total = sum(len(results[m]) for m in MODES)
    if sum(len(scripts[m]) for m in MODES) != total:
        rep.inconclusive.append("driver returned %d results for %d scripts" % (total, sum(len(scripts[m]) for m in MODES)))
    if ninc <= max(1, total // 100) and not any("returned" in x for x in rep.inconclusive):
        for x in rep.inconclusive[:3]:
            rep.notes.append("NOTE: tolerated " + x[:300])
        rep.inconclusive = []
    drifts = [x for m in MODES for r in results[m] for x in (r.get("drift") or [])]
    for d in drifts[:6]:
        rep.notes.append("DRIFT: " + d)
    if len(drifts) > max(5, total // 20):
        rep.inconclusive.append("%d drift notes in %d scripts (specification and code disagree)" % (len(drifts), total))
    for const in sorted(set(EXPECTED.values())):
        if not any(k in seen for k, v in EXPECTED.items() if v == const):
            rep.notes.append("NOTE: no behaviour showed the deviation %s = FALSE any more (repaired?): flip it in spec/cfg/AuthV1.*.gen.cfg / trace cfgs" % const)

    # recorded traces of the real node are validated by TLC against the specification
    acc = rejn = 0
    for mode in MODES:
        good = [r for r in results[mode] if r.get("trace") and not r.get("error")]
        traces = [r["trace"] for r in good]
        a, rej = vlib.validate_traces("TraceAuthV1", "AuthV1.trace.%s.cfg" % mode, traces, timeout=600)
        acc += a
        rejn += len(rej)
        for x in rej[:5]:
            rep.notes.append("DRIFT: trace of %s rejected at event %s (%s)" % (good[x["index"]]["id"], json.dumps(x["event"])[:300], x["kind"]))
        for x in rej:
            if x["kind"].startswith("invariant:"):
                rep.violation(dict(kind="trace-" + x["kind"], cause=""), dict(property=prop, trace=traces[x["index"]], rejected=x,
                              input=dict(mode=mode, scripts=[by_id[good[x["index"]]["id"]][1]])))
        if len(rej) > 3 and not rep.violations:
            rep.inconclusive.append("at least %d of %d recorded %s traces are not behaviours of the specification (spec/code drift)" % (len(rej), len(traces), mode))

    # vacuity guards
    if not quick or os.environ.get("VERIF_X10_FULL"):
        for cfg, inv in (("AuthV1.grant.dev1.cfg", "IssuedOnlyIfAllHeld"), ("AuthV1.grant.dev2.cfg", "IssuedOnlyIfAllHeld"),
                         ("AuthV1.grant.dev3.cfg", "IssuedOnlyIfAllHeld"), ("AuthV1.grant.dev4.cfg", "IntrospectFaithful"), ("AuthV1.sess.live.dev.cfg", "EventuallyGone")):
            d = vlib.tlc("MCAuthV1", cfg, timeout=300, workers=2)
            got = d.violation if d.violation not in (None, "temporal") else (inv if (d.violation == "temporal" or "violated" in (d.error or "") + d.raw[-3000:]) else None)
            if got != inv:
                raise Inconclusive("vacuity guard: %s must violate %s, TLC says %s / %s" % (cfg, inv, d.violation, d.error))
            models.append(dict(cfg=cfg, expected_violation=inv))
        missing = [a for m in MODES for a in ACTIONS[m] if not cover.get(a)]
        if missing:
            raise Inconclusive("vacuity: actions never fired in the exhaustive runs: %s" % missing)
        # every single defect and every pair was put to the real authorization server
        want = set()
        for mode_beh in [behaviours(fut["grant", "gen"].result())]:
            for b in mode_beh:
                for s in b:
                    if s["a"] == "Grant":
                        want.add(json.dumps(s["req"], sort_keys=True))
        if want - reqs_seen:
            rep.inconclusive.append("%d abstract requests of the model were not replayed" % len(want - reqs_seen))
        classes = {c.split(" ")[0] for c in covered_mut}
        uncovered = sorted(set(["ctx", "type", "vc.ctx", "vc.type", "vc.id", "vc.issuer", "vc.dates", "vc.subject", "vc.proof",
                                "proof.challenge", "proof.created", "proof.jws", "proof.vm", "proof.purpose", "proof.type"]) - classes)
        if uncovered:
            rep.inconclusive.append("mutation classes without a member in the real presentation: %s" % uncovered)

    cov = dict(states=states, transitions=transitions, traces_validated_against_impl=acc + rejn, traces_accepted=acc, traces_rejected=rejn,
               samples=samples or [scripts["grant"][0]["steps"]], models=models, behaviours_replayed_on_real_code=total,
               behaviours_per_mode={m: len(results[m]) for m in MODES}, witness_behaviours_available=n_wit, oracle_evaluations=nchecks,
               distinct_grant_requests_replayed=len(reqs_seen), presentation_members_mutated=len(covered_mut),
               drift_notes=ndrift, inconclusive_scripts=ninc, action_coverage=cover,
               phase_wall_s=dict(models=round(t_models, 1), replay=round(t_driver, 1)), exhaustive=False,
               deviations_seen=sorted("%s/%s" % k for k in seen),
               rule="TLC exhausts the prescriptive AuthV1 configs listed under 'models' (P1 IssuedOnlyIfAllHeld, P2 IntrospectFaithful, P3 VpAtMostOnce / "
                    "SecretOnce / VpOnlyWhenCompleted / DeadStaysDead / SecretRequired / EventuallyGone, P4 ValidIffInWindowAndTrusted); behaviours of the "
                    "DESCRIPTIVE variant (one witness per distinct terminal state = every abstract grant request with <= 2 defects, every session history up to "
                    "MaxOps, every verification class; simulation runs; directed behaviours) are replayed on a whole in-process node through the v1 HTTP API "
                    "with real keys, DID documents, credentials and presentations; a self-contained oracle judges every answer; every recorded run is "
                    "validated by TLC against TraceAuthV1.tla (P1 / P2 / P4 invariants evaluated on the real answers)")
    vlib.write_evidence(prop, tier, seed, "model_checking", cov, time.time() - t0, len(rep.violations),
                        ["ECDSA / JWS / JSON-LD canonicalisation are correct", "did:nuts resolution and credential search work as specified in DidStore.tla / VcLife.tla",
                         "one node holds requester and authorizer (the network between two nodes is not part of this model)",
                         "sequential requests per session (the compare-and-set of the session store is not raced)",
                         "token life 2 s, clock skew 1 s configured on the node under test; session deadlines moved through the stored session (virtual clock)",
                         "IRMA and UZI means are not configured"])
    return rep.finish()
