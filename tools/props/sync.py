"""C07 (and C15, see syncpriv.py): Sync.tla <-> network/transport/v2 (real protocol instances in a deterministic simulator)."""
import json, os, random, re, time
from .. import vlib
from ..vlib import Report, Inconclusive

PROPS = ["C07"]

UNI = {  # mirrors Attr in MCSync.tla
    "r": dict(prevs=[], lc=0, ok=True), "a1": dict(prevs=["r"], lc=1, ok=True), "a2": dict(prevs=["a1"], lc=2, ok=True),
    "a3": dict(prevs=["a2"], lc=3, ok=True), "a4": dict(prevs=["a3"], lc=4, ok=True), "b1": dict(prevs=["r"], lc=1, ok=True),
    "b2": dict(prevs=["b1"], lc=2, ok=True), "b3": dict(prevs=["b2"], lc=3, ok=True), "j": dict(prevs=["a1", "b1"], lc=2, ok=True),
    "z": dict(prevs=["r"], lc=1, ok=False)}
SCEN = {  # mirrors Scenario in MCSync.tla
    "branches": dict(init=dict(A=["r", "a1", "a2", "a3"], B=["r", "b1", "b2"], C=["r"]), fut=dict(A=[], B=[], C=[])),
    "behind": dict(init=dict(A=["r", "a1", "a2", "a3"], B=["r"], C=["r"]), fut=dict(A=["a4"], B=[], C=[])),
    "equal": dict(init=dict(A=["r", "a1"], B=["r", "a1"], C=["r", "a1"]), fut=dict(A=["a2"], B=["b1"], C=[])),
    "join": dict(init=dict(A=["r", "a1", "b1", "j"], B=["r", "b1"], C=["r"]), fut=dict(A=[], B=["b2"], C=[]))}


def cfg_tx(cfg):
    txt = open(os.path.join(vlib.SPEC, "cfg", cfg)).read()
    return re.findall(r'"(\w+)"', re.search(r"Tx = \{(.*?)\}", txt).group(1))


def run(prop, tier, seed, replay=None):
    t0 = time.time()
    rep = Report(prop)
    binary = vlib.build_driver("syncdrv")
    if replay:
        obj = json.load(open(replay))
        res = vlib.run_driver(binary, obj["input"])
        for r in res:
            print(json.dumps({k: v for k, v in r.items() if k != "trace"})[:3000])
            for v in r["violations"]:
                if v["prop"] == prop:
                    rep.violation(dict(kind=v["kind"]), obj)
        return rep.finish()

    quick = tier == "quick"
    rnd = random.Random(seed)
    models = []
    states = transitions = 0
    # 1. TLC: safety + convergence under fairness on the implementation-shaped model
    live = ["equal", "behind"] if quick else ["equal", "behind", "join", "branches"]
    safety = ["equal"] if quick else ["equal", "behind", "join", "branches"]
    runs = [("Sync.%s.live.cfg" % s, 1500) for s in live] + [("Sync.%s.safety.cfg" % s, 1500) for s in safety]
    if not quick:
        runs.append(("Sync.branches.safety2.cfg", 1500))  # second fault mix of the largest scenario (duplicates)
    cover = {}
    for cfg, to in runs:
        m = vlib.tlc("MCSync", cfg, timeout=to, workers=min(12, vlib.NCPU), coverage=(not quick and "safety" in cfg))
        if m.error:
            raise Inconclusive("TLC %s: %s" % (cfg, m.error))
        if m.violation:
            raise Inconclusive("model %s violates %s:\n%s" % (cfg, m.violation, m.raw[-2500:]))
        states += m.distinct
        transitions += m.generated
        cover.update(m.coverage)
        models.append(dict(cfg=cfg, states=m.distinct, transitions=m.generated, depth=m.depth, wall_s=round(m.wall, 1),
                           checked="OnlyValid, OneBlockingPerPeer, NeverRemove" + (", Converges (FairSpec)" if "live" in cfg else "")))
    # 2. spec -> code: simulated behaviours of the model (1:1 scale: one page, everything decodable) replayed on real nodes
    results, scripts_by_id = [], {}
    t_acc = t_rej = 0
    n_sim = 150 if quick else 1200
    for scn in (["join", "equal", "behind", "branches"]):
        cfg = "Sync.%s.gen.cfg" % scn
        g = vlib.tlc("MCSync", cfg, workers=1, simulate="num=%d" % n_sim, depth=45, seed=seed, timeout=900)
        if g.error and "timeout" in g.error:
            raise Inconclusive(g.error)
        beh = vlib.dedupe_maximal(g.printed)
        rnd.shuffle(beh)
        beh = beh[: (120 if quick else 1000)]
        tx = cfg_tx(cfg)
        scripts = [dict(id="%s-s%04d" % (scn, i), steps=b) for i, b in enumerate(beh)]
        inp = dict(universe={k: UNI[k] for k in tx}, nodes=["A", "B"], links=[["A", "B"]],
                   init={n: SCEN[scn]["init"][n] for n in ("A", "B")}, future={n: SCEN[scn]["fut"][n] for n in ("A", "B")},
                   scripts=scripts, rounds=25)
        rs = vlib.run_driver_parallel(binary, inp, timeout=600)
        for r in rs:
            r["input"] = dict(inp, scripts=None)
        results += rs
        for s in scripts:
            scripts_by_id[s["id"]] = s
        # code -> spec: the recorded traces of these runs (up to the fair suffix) must be behaviours of Sync.tla
        tr = [r["trace"] for r in rs if r.get("trace") and not r.get("error")]
        tr = tr[: (60 if quick else 400)]
        acc, rej = vlib.validate_traces("TraceSync", "Sync.trace.%s.cfg" % scn, tr, timeout=900)
        t_acc += acc
        t_rej += len(rej)
        for x in rej[:2]:
            rep.notes.append("DRIFT: %s trace %d rejected at event %s (%s)" % (scn, x["index"], json.dumps(x["event"])[:200], x["kind"]))
        for x in rej:
            if x["kind"].startswith("invariant:"):
                rep.violation(dict(kind="trace-" + x["kind"]), dict(property=prop, trace=tr[x["index"]], rejected=x))
    # 3. code -> oracle at real scale: the simulator's own seeded scheduler on multi-page DAG pairs
    shapes = ["branches", "behind", "wide", "mixed"]
    big = []
    k = 0
    for shape in shapes:
        for rep_i in range(2 if quick else 10):
            k += 1
            size = rnd.choice([700, 1100] if quick else [560, 700, 1100, 1600])
            big.append(dict(id="big-%s-%d" % (shape, rep_i), seed=seed * 1000 + k, shape=shape, size=size,
                            budget=rnd.choice([40, 120, 300]), loss=rnd.choice([0, 2, 6]), dup=rnd.choice([0, 1, 3]),
                            expire=rnd.choice([0, 1, 3]), inject=rnd.choice([0, 2, 4]), create=rnd.choice([0, 2, 5])))
    # an undecodable difference on the third / fourth page with everything below in sync (page fall-back must walk down one page at a time)
    for i, (deep, sz) in enumerate([(1040, 700)] if quick else [(1040, 700), (1560, 760), (1030, 900), (2060, 700)]):
        big.append(dict(id="big-deepwide-%d" % i, seed=seed * 31 + i, shape="deepwide", deep=deep, size=sz, budget=rnd.choice([0, 40]), loss=rnd.choice([0, 2]),
                        dup=rnd.choice([0, 1]), expire=0, inject=0, create=0))
    # an undecodable difference on the first (or second) page while the other node is one or two pages ahead (the fall-back has to
    # fetch the whole first page, it cannot step below it)
    for i, (deep, sz) in enumerate([(0, 700)] if quick else [(0, 700), (0, 900), (520, 700), (300, 760)]):
        big.append(dict(id="big-lowwide-%d" % i, seed=seed * 37 + i, shape="lowwide", deep=deep, size=sz, budget=rnd.choice([0, 40]), loss=rnd.choice([0, 2]),
                        dup=rnd.choice([0, 1]), expire=0, inject=0, create=0))
    for sz in ([150] if quick else [101, 150, 260]):
        big.append(dict(id="burst-%d" % sz, seed=seed, shape="burst", size=sz))
    if not quick:
        big.append(dict(id="big-fat-chunks", seed=seed, shape="behind", size=24, budget=60, loss=1, dup=1, expire=1, inject=1, create=1, fat=True))
        for i in range(4):
            big.append(dict(id="big3-%d" % i, seed=seed * 77 + i, shape="mixed", size=560, budget=200, loss=3, dup=2, expire=2, inject=2, create=3, three=True))
    two = [b for b in big if not b.get("three")]
    three = [b for b in big if b.get("three")]
    inp2 = dict(nodes=["A", "B"], links=[["A", "B"]], scripts=two, rounds=60)
    rs = vlib.run_driver_parallel(binary, inp2, timeout=900, shards=min(len(two), vlib.NCPU))
    for r in rs:
        r["input"] = dict(inp2, scripts=None)
    results += rs
    if three:
        inp3 = dict(nodes=["A", "B", "C"], links=[["A", "B"], ["B", "C"]], scripts=three, rounds=90)
        rs = vlib.run_driver_parallel(binary, inp3, timeout=900, shards=len(three))
        for r in rs:
            r["input"] = dict(inp3, scripts=None)
        results += rs
    for s in big:
        scripts_by_id[s["id"]] = s

    ninc = ndrift = delivered = 0
    kinds = {}
    paths = {}
    samples = []
    for r in results:
        delivered += r.get("delivered", 0)
        ndrift += len(r.get("drift") or [])
        for kk, vv in (r.get("kinds") or {}).items():
            kinds[kk] = kinds.get(kk, 0) + vv
        for kk, vv in (r.get("paths") or {}).items():
            paths[kk] = paths.get(kk, 0) + vv
        sc = scripts_by_id[r["id"]]
        if r.get("error"):
            ninc += 1
            rep.inconclusive.append("script %s: %s" % (r["id"], r["error"]))
        for v in r["violations"]:
            if v["prop"] not in (prop, "C19"):
                continue
            inp = dict(r["input"], scripts=[sc])
            rep.violation(dict(kind=v["kind"]), dict(property=prop, violation=v, input=inp))
        if len(samples) < 2 and r.get("trace") and len(r["trace"]) > 12:
            samples.append(dict(script=sc.get("steps", sc), real_trace=r["trace"][:25]))
    if ninc <= max(1, len(results) // 50):
        rep.inconclusive = []
    need = ["state-previous-page", "state-current", "range-first-page", "range-next-page", "range-two-pages", "list-query"] + ([] if quick else ["list-chunked"])
    missing = [k for k in need if not paths.get(k)]
    if missing and not rep.violations:
        rep.inconclusive.append("reconciliation branches never exercised on the real code: %s" % missing)
    if ndrift > len(results):
        rep.notes.append("DRIFT: %d scripted steps had no counterpart on the real nodes" % ndrift)
    if t_rej > max(3, (t_acc + t_rej) // 5) and not rep.violations:
        rep.inconclusive.append("%d of %d recorded traces are not behaviours of Sync.tla (spec/code drift)" % (t_rej, t_acc + t_rej))
    cov = dict(states=states, transitions=transitions, traces_validated_against_impl=t_acc + t_rej, traces_accepted=t_acc, traces_rejected=t_rej,
               samples=samples or [next(iter(scripts_by_id.values()))],
               models=models, behaviours_replayed_on_real_code=len(results), big_dag_runs=len(big),
               real_handler_invocations=delivered, real_messages_by_kind=kinds, reconciliation_branches_taken=paths, drift_steps=ndrift, inconclusive_scripts=ninc,
               action_coverage=cover, exhaustive=False,
               rule="TLC exhausts Sync.tla on the scenario configs under 'models' (safety invariants; convergence under fairness in the live configs); "
                    "simulated model behaviours are replayed 1:1 on two real v2 protocol instances over real dag.States (every envelope captured at "
                    "Connection.Send, handlers called synchronously), and seeded random schedules with loss/duplication/reordering/premature time-outs/"
                    "forged responses run on multi-page DAG pairs; after every step no node may have lost or admitted an invalid/orphan transaction; "
                    "after the fair suffix all nodes must hold the union with equal XOR; the recorded traces of the 1:1 replays (one event per simulator step and per envelope sent, digests abstracted to the set they digest) are validated by TLC against TraceSync.tla")
    vlib.write_evidence(prop, tier, seed, "model_checking", cov, time.time() - t0, len(rep.violations),
                        ["handlers of one node run one at a time (races between handlers are covered at the dag.State level, C06/C08)",
                         "multi-message TransactionLists arrive in order in the liveness configs (gRPC streams are FIFO)",
                         "convergence on the real code is decided within a bounded number of fair rounds (gossip tick + delivery + time-out)",
                         "gossip interval >> round trip: at most one gossip in flight per direction in the model"])
    return rep.finish()
