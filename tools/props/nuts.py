"""X09 (extension): Nuts.tla <-> the end-to-end composition: did:nuts subject operation on a node (real didnuts.Manager ->
real Network.CreateTransaction) -> DAG -> gossip / reconciliation of the real v2 protocol over simulated connections ->
persistent subscriber (real dag notifier -> real ambassador) -> did store -> Resolve, on 2-3 real in-process node stacks.
TLC behaviours are replayed on them, a self-contained oracle judges E1..E4 on what the nodes resolve, and every recorded
run is validated by TLC against TraceNuts.tla."""
import json, os, random, time
from .. import vlib
from ..vlib import Report, Inconclusive

PROPS = ["X09"]

FAMILIES = {   # family -> (nodes, rogue)
    "core": (["A", "B"], "B"),
    "forge": (["A", "B", "C"], "C"),
    "react": (["A", "B"], "B"),
}
OWNERS = ["A", "B"]
WORKERS = 4

# expected violations of the vacuity configs: each deviation constant must break its property
VACUITY = [("Nuts.dev.controller.cfg", "E2"), ("Nuts.dev.dberror.cfg", "NoDrop"), ("Nuts.dev.persist.cfg", "NoDrop"),
           ("Nuts.dev.sticky.cfg", "E4"), ("Nuts.dev.live.cfg", "Converges"),
           # the two deviations of the code (open findings X09-deact-*): the code's variant must violate, the prescriptive one holds
           ("Nuts.dev.unapplied.cfg", "NoDrop"), ("Nuts.dev.keydeact.cfg", "Converges")]


def tlc_ok(cfg, what, **kw):
    kw.setdefault("workers", WORKERS)
    m = vlib.tlc("MCNuts", cfg, **kw)
    if m.error:
        raise Inconclusive("TLC %s (%s): %s\n%s" % (cfg, what, m.error, m.raw[-1500:]))
    if m.violation:
        raise Inconclusive("model %s violates %s:\n%s" % (cfg, m.violation, m.raw[-3000:]))
    return m


def O(n, kind, m=None):
    return dict(a="Op", n=n, kind=kind, m=m or n)


def A(p, q, t, dup=False):
    return dict(a="Admit", p=p, q=q, t=t, dup=dup)


def directed():
    """Behaviours of Nuts.tla a sample of witnesses rarely contains (validated as behaviours of the spec like every other run)."""
    out = []
    # concurrent updates on both controlling nodes -> merged document; a third update on top of the merge
    out.append(("core", "d-conflict", [O("A", "create"), O("A", "addkey", "B"), A("B", "A", 1), A("B", "A", 2), O("A", "service"), O("B", "service"),
                                      A("B", "A", 3), A("A", "B", 4), O("A", "deactivate")]))
    # acknowledged on A, A restarted before any gossip; B's subscriber fails twice (immediate retry too), B restarted
    out.append(("core", "d-ack-restart", [O("A", "create"), dict(a="Stop", n="A"), dict(a="Start", n="A"), dict(a="Arm", n="B", k=2), A("B", "A", 1),
                                         dict(a="Retry", p="B", t=1), O("A", "service"), dict(a="Lost", q="A", p="B", k=1), dict(a="Stop", n="B"), dict(a="Start", n="B"),
                                         A("B", "A", 2)]))
    # a transient failure that the immediate retry heals; duplicated lists
    out.append(("core", "d-retry-once", [O("A", "create"), dict(a="Arm", n="B", k=1), A("B", "A", 1, True), dict(a="Retry", p="B", t=1), O("A", "addkey", "B"),
                                        A("B", "A", 2, True), O("B", "service"), A("A", "B", 3, True)]))
    # deactivation racing with an update on the other node, then the attempt to build on the merged (non-empty) document
    out.append(("react", "d-deact-race", [O("A", "create"), O("A", "addkey", "B"), A("B", "A", 1), A("B", "A", 2), O("A", "deactivate"), O("B", "service"),
                                         A("B", "A", 3), A("A", "B", 4), O("A", "react"), O("B", "react"), O("B", "service")]))
    out.append(("react", "d-deact-fault", [O("A", "create"), O("A", "addkey", "B"), A("B", "A", 1), A("B", "A", 2), O("B", "service"), O("A", "deactivate"),
                                          dict(a="Arm", n="B", k=2), A("B", "A", 4), A("A", "B", 3), O("A", "react"), A("B", "A", 5), dict(a="Stop", n="B"), dict(a="Start", n="B")]))
    # the rogue forges on top of every version; arrival in different orders at the third node; a fault at the forger's peer
    out.append(("forge", "d-forge-orders", [O("A", "create"), A("C", "A", 1), O("C", "forge"), O("A", "service"), A("B", "C", 1), A("B", "C", 2), A("B", "A", 3),
                                           A("A", "C", 2), O("A", "addkey", "B"), A("C", "A", 3)]))
    out.append(("forge", "d-forge-fault", [O("A", "create"), O("A", "service"), A("C", "A", 1), A("C", "A", 2), O("C", "forge"), dict(a="Arm", n="B", k=2), A("B", "A", 1),
                                          A("B", "C", 2), dict(a="Stop", n="B"), dict(a="Start", n="B"), A("B", "C", 2), A("B", "C", 3), O("A", "deactivate")]))
    out.append(("forge", "d-three-way", [O("A", "create"), O("A", "addkey", "B"), A("B", "A", 1), A("B", "A", 2), A("C", "A", 1), O("A", "service"), O("B", "service"),
                                        A("C", "B", 2), A("C", "B", 4), A("C", "A", 3), O("C", "forge"), O("B", "deactivate")]))
    return out


def select(behaviours, n, rnd):
    """Diversity first: bucket by the multiset of actions / operation kinds, round-robin over the buckets."""
    items = sorted(behaviours, key=lambda b: json.dumps(b, sort_keys=True))
    rnd.shuffle(items)
    buckets = {}
    for b in items:
        sig = tuple(sorted((s["a"], s.get("kind", ""), s.get("n", s.get("p", ""))) for s in b))
        buckets.setdefault(sig, []).append(b)
    keys = sorted(buckets)
    rnd.shuffle(keys)
    chosen = []
    while len(chosen) < n and keys:
        for k in list(keys):
            if buckets[k]:
                chosen.append(buckets[k].pop())
                if len(chosen) >= n:
                    break
            else:
                keys.remove(k)
    return chosen


def decorate(steps, rnd):
    """Environment choices the model leaves open: which lists are duplicated, which message of a lossy exchange is lost."""
    out = []
    for s in steps:
        s = dict(s)
        if s["a"] == "Admit" and rnd.random() < 0.25:
            s["dup"] = True
        if s["a"] == "Lost":
            s["k"] = rnd.randrange(3)
        out.append(s)
    return out


def run_family(binary, fam, scripts, quick):
    nodes, rogue = FAMILIES[fam]
    inp = dict(nodes=nodes, owners=OWNERS, rogue=rogue, scripts=scripts)
    return vlib.run_driver_parallel(binary, inp, shards=(6 if quick else 8), timeout=(300 if quick else 900))


def run(prop, tier, seed, replay=None):
    t0 = time.time()
    rep = Report(prop)
    binary = vlib.build_driver("nuts")
    if replay:
        obj = json.load(open(replay))
        res = vlib.run_driver(binary, obj["input"])
        for r in res:
            print(json.dumps(dict(r, trace=None))[:3000])
            for v in r["violations"]:
                rep.violation(dict(kind=v["kind"], cause=v.get("cause", "")), obj)
        return rep.finish()

    quick = tier == "quick"
    rnd = random.Random(seed)
    corrupt = os.environ.get("VERIF_X09_CORRUPT")   # binding demonstration only
    states = transitions = 0
    models, cover = [], {}
    from concurrent.futures import ThreadPoolExecutor
    pool = ThreadPoolExecutor(max_workers=2)   # at most two TLC runs at a time, 4 workers each
    fut = {}
    checks = ["Nuts.core.quick.cfg", "Nuts.forge.quick.cfg", "Nuts.react.quick.cfg", "Nuts.live.cfg"]
    if not quick:
        checks += ["Nuts.e4.cfg", "Nuts.core.thorough.cfg", "Nuts.forge.thorough.cfg", "Nuts.live3.cfg"]
    for cfg in checks:
        fut["check", cfg] = pool.submit(tlc_ok, cfg, "prescriptive", timeout=900, coverage=(not quick and cfg.endswith("quick.cfg")))
    for fam in FAMILIES:
        fut["gen", fam] = pool.submit(tlc_ok, "Nuts.%s.gen.cfg" % fam, "generation", timeout=900)
        if not quick:
            fut["sim", fam] = pool.submit(vlib.tlc, "MCNuts", "Nuts.%s.gen.cfg" % fam, workers=1, simulate="num=400", depth=30, seed=seed, timeout=300)
    for cfg in checks:
        m = fut["check", cfg].result()
        states += m.distinct
        transitions += m.generated
        models.append(dict(cfg=cfg, states=m.distinct, transitions=m.generated, depth=m.depth, wall_s=round(m.wall, 1)))
        for k, v in m.coverage.items():
            cover[k] = cover.get(k, 0) + v
    per_family = 40 if quick else 260
    scripts = {fam: [] for fam in FAMILIES}
    n_wit = 0
    for fam in FAMILIES:
        g = fut["gen", fam].result()
        states += g.distinct
        transitions += g.generated
        models.append(dict(cfg="Nuts.%s.gen.cfg" % fam, states=g.distinct, transitions=g.generated, depth=g.depth, wall_s=round(g.wall, 1), variant="descriptive"))
        wit = [p["steps"] for p in g.printed if isinstance(p, dict) and "steps" in p]
        n_wit += len(wit)
        for i, b in enumerate(select(wit, per_family, rnd)):
            scripts[fam].append(dict(id="%s-w%04d" % (fam, i), steps=decorate(b, rnd)))
        if not quick:
            s = fut["sim", fam].result()
            if s.error and "timeout" in s.error:
                raise Inconclusive(s.error)
            sim = vlib.dedupe_maximal([p["steps"] for p in s.printed if isinstance(p, dict) and "steps" in p])
            rnd.shuffle(sim)
            for i, b in enumerate(sim[:120]):
                scripts[fam].append(dict(id="%s-s%04d" % (fam, i), steps=decorate(b, rnd)))
    for fam, name, steps in directed():
        scripts[fam].append(dict(id=name, steps=steps))
    if corrupt:
        scripts["core"][0]["corrupt"] = corrupt
    t_models = time.time() - t0

    results, by_id = [], {}
    for fam in FAMILIES:
        for sc in scripts[fam]:
            by_id[sc["id"]] = (fam, sc)
        results += run_family(binary, fam, scripts[fam], quick)
    t_driver = time.time() - t0 - t_models

    nchecks = ndrift = ninc = 0
    stats, samples = {}, []
    for r in results:
        fam, sc = by_id[r["id"]]
        nodes, rogue = FAMILIES[fam]
        nchecks += r.get("checks", 0)
        for k, v in (r.get("stats") or {}).items():
            stats[k] = stats.get(k, 0) + v
        ndrift += len(r.get("drift") or [])
        if r.get("error"):
            ninc += 1
            rep.inconclusive.append("script %s: %s" % (r["id"], r["error"]))
        for v in r["violations"]:
            inp = dict(nodes=nodes, owners=OWNERS, rogue=rogue, scripts=[sc])
            rep.violation(dict(kind=v["kind"], cause=v.get("cause", "")), dict(property=prop, violation=v, input=inp))
        if len(samples) < 3 and len(sc["steps"]) >= 8 and r.get("trace") and not r.get("error"):
            samples.append(dict(script=sc["steps"], real_trace=[e for e in r["trace"] if e["ev"] != "obs"][:16]))
    if ninc <= max(1, len(results) // 100):
        rep.inconclusive = []
    for d in [x for r in results for x in (r.get("drift") or [])][:5]:
        rep.notes.append("DRIFT: " + d)

    # recorded traces of the real node stacks are validated by TLC against the specification
    good = [r for r in results if r.get("trace") and not r.get("error")]
    traces = [r["trace"] for r in good]
    acc, rej = vlib.validate_traces("TraceNuts", "Nuts.trace.cfg", traces, timeout=900, batch=150)
    for x in rej[:5]:
        rep.notes.append("DRIFT: trace of %s rejected at event %s (%s)" % (good[x["index"]]["id"], json.dumps(x["event"])[:400], x["kind"]))
        if os.environ.get("VERIF_DUMP_REJ"):
            json.dump(dict(rejected=x, script=by_id[good[x["index"]]["id"]][1], trace=traces[x["index"]]),
                      open(os.path.join(os.environ["VERIF_DUMP_REJ"], "rej-%s-%s.json" % (prop, good[x["index"]]["id"])), "w"), indent=1)
    for x in rej:
        if x["kind"].startswith("invariant:"):
            fam, sc = by_id[good[x["index"]]["id"]]
            rep.violation(dict(kind="trace-" + x["kind"], cause=""), dict(property=prop, trace=traces[x["index"]], rejected=x,
                          input=dict(nodes=FAMILIES[fam][0], owners=OWNERS, rogue=FAMILIES[fam][1], scripts=[sc])))
    if len(rej) > 3 and not rep.violations and not corrupt:
        rep.inconclusive.append("at least %d of %d recorded traces are not behaviours of the specification (spec/code drift)" % (len(rej), len(traces)))

    # vacuity guards
    if not quick or os.environ.get("VERIF_X09_FULL"):
        for cfg, inv in VACUITY:
            d = vlib.tlc("MCNuts", cfg, timeout=600, workers=WORKERS)
            text = (d.error or "") + d.raw[-3000:]
            got = d.violation if d.violation not in (None, "temporal") else (inv if (inv in text and ("violated" in text or d.violation == "temporal")) else None)
            if got != inv:
                raise Inconclusive("vacuity guard: %s must violate %s, TLC says %s / %s" % (cfg, inv, d.violation, d.error))
            models.append(dict(cfg=cfg, expected_violation=inv))
        missing = [a for a in ("Op", "Forge", "Admit", "Retry", "Timer", "Stop", "Start", "Replay", "Arm") if not cover.get(a)]
        if missing:
            raise Inconclusive("vacuity: actions never fired in the exhaustive runs: %s (coverage %s)" % (missing, cover))
    need = ["op-create", "op-service", "op-forge", "handle-first-ok", "handle-first-retry", "handle-first-fatal", "handle-replay-ok", "handle-retry-ok", "duplicated"]
    miss = [k for k in need if not stats.get(k)]
    if miss and not rep.violations:   # (a violation observed on the real code is reported in any case)
        raise Inconclusive("vacuity: the real runs never showed %s" % miss)

    cov = dict(states=states, transitions=transitions, traces_validated_against_impl=acc + len(rej), traces_accepted=acc, traces_rejected=len(rej),
               samples=samples or [scripts["core"][0]["steps"]], models=models, behaviours_replayed_on_real_code=len(results),
               witness_behaviours_available=n_wit, oracle_evaluations=nchecks, real_run_statistics=stats, drift_notes=ndrift,
               inconclusive_scripts=ninc, action_coverage=cover, phase_wall_s=dict(models=round(t_models, 1), replay=round(t_driver, 1)), exhaustive=False,
               rule="TLC exhausts the Nuts configs listed under 'models' (E1, E2, E4, AckedDurable, NoDrop, DagClosed as invariants; E4 / monotonicity as action "
                    "properties; Converges and AckedEverywhere (E1, E3) under fairness); witness behaviours (one per distinct terminal state), simulation runs and "
                    "directed behaviours are replayed on 2-3 real node stacks (real didnuts.Manager, Network.CreateTransaction, dag.State, v2 protocol over simulated "
                    "connections with loss / duplication / single-transaction lists, persistent notifier, ambassador, did store with injected write failures, restarts); "
                    "a self-contained oracle judges after every step what every node resolves (E2, E4) and after a fair suffix convergence to the canonical fold and "
                    "the fate of every acknowledged operation (E1, E3); every recorded run is validated by TLC against TraceNuts.tla (state of the model = observation "
                    "of every node after every step)")
    vlib.write_evidence(prop, tier, seed, "model_checking", cov, time.time() - t0, len(rep.violations),
                        ["ECDSA / JWS signatures are correct", "the v2 protocol reconciles two DAGs as specified in Sync.tla (C07): the composition uses 'p admits t learnt from q' as one action",
                         "the did store's fold is order independent as specified in DidStore.tla (C10)", "orderly restarts only (no crash inside a handler or between commit and notification)",
                         "small scope: 2-3 nodes, one subject DID with two controlling nodes and one rogue DID, <= 4-5 document transactions, <= 2 injected write failures, <= 2 restarts",
                         "the back-off timer of the notifier is realised by the start-up replay in the fair suffix (same code path: notifyNow)"])
    return rep.finish()
