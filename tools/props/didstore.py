"""C10, C09: DidStore.tla <-> vdr/didnuts/didstore (real store over real bbolt) and the real ambassador callback behind the real
DAG signature verifier (really signed transactions)."""
import collections, json, os, random, re, time
from .. import vlib
from ..vlib import Report, Inconclusive

PROPS = ["C10", "C09"]

WORKERS = 8
SHARDS = 8
PANIC = {"vm-null", "vm-no-key"}                                             # PanicDefects of the cfgs
LAX = set()       # LaxDefects of the descriptive cfgs (F20-C09 repaired: embedded methods are validated like the listed ones)
ASSUMPTIONS = ["SHA-256 / RFC 7638 thumbprints are collision free", "bbolt commits atomically; one store.Add at a time (the callers serialise)",
               "jwx verifies ES256 correctly", "small scope: <= 5 transactions per event set, <= 3 DIDs (7 in the controller chain), 5 keys",
               "the lamport clock of a received transaction respects its prevs (checked by the DAG before the ambassador sees it); signing times are arbitrary",
               "JSON members the model does not talk about (contexts, assertionMethod, key agreement) are functions of the modelled content"]


def driver_binary():
    """VERIF_DIDSTORE_BINARY: a driver binary built elsewhere against a MUTATED copy of the repository (binding demonstration
    only: other builders share harness/go.mod, so the mutant tree cannot be selected with VERIF_REPO while they are running)."""
    return os.environ.get("VERIF_DIDSTORE_BINARY") or vlib.build_driver("didstore")


def tlc_ok(cfg, coverage, what):
    m = vlib.tlc("MCDidStore", cfg, workers=WORKERS, timeout=2400, coverage=coverage)
    if m.error:
        raise Inconclusive("TLC %s: %s\n%s" % (cfg, m.error, m.raw[-2000:]))
    if m.violation:
        raise Inconclusive("model %s violates %s (%s):\n%s" % (cfg, m.violation, what, m.raw[-3000:]))
    return m


def tlc_expect_violation(cfg, expected):
    """descriptive variant: TLC must find the deviation (vacuity guard of the deviation constants)"""
    m = vlib.tlc("MCDidStore", cfg, workers=WORKERS, timeout=1200)
    if m.error:
        raise Inconclusive("TLC %s: %s" % (cfg, m.error))
    return m, (m.violation in expected)


def model_entry(cfg, m, **kw):
    d = dict(cfg=cfg, states=m.distinct, transitions=m.generated, depth=m.depth, wall_s=round(m.wall, 1))
    d.update(kw)
    return d


def split_printed(printed):
    tables, rest = None, []
    for p in printed:
        if isinstance(p, dict) and "tables" in p:
            tables = p["tables"]
        else:
            rest.append(p)
    if tables is None:
        raise Inconclusive("the model did not print its tables")
    return tables, rest


# ------------------------------------------------------------------------------------------------ C10

def classify_docs(da, db):
    """which aspects of two document JSON strings differ"""
    if da == db:
        return set()
    try:
        a, b = json.loads(da), json.loads(db)
    except ValueError:
        return {"document"}

    def norm(d, ctrl, svc):
        d = json.loads(json.dumps(d))
        c = d.get("controller")
        if ctrl and isinstance(c, list):
            d["controller"] = sorted(c)
        if svc and isinstance(d.get("service"), list):
            d["service"] = sorted(s.get("id", "") if isinstance(s, dict) else str(s) for s in d["service"])
        return d
    out = set()
    if norm(a, True, False) == norm(b, True, False):
        return {"controller-order"}
    if norm(a, False, True) == norm(b, False, True):
        return {"service-content"}
    if norm(a, True, True) == norm(b, True, True):
        return {"controller-order", "service-content"}
    return {"document"}


def by_hash(proj, label):
    for a in proj["table"].values():
        if a.get("hash") == label:
            return a
    return None


def classify_answers(pa, pb, a, b):
    f = set()
    if a.get("err", "") != b.get("err", ""):
        return {"error-class"}
    d = classify_docs(a.get("doc", ""), b.get("doc", ""))
    f |= d
    if not d and a.get("hash") != b.get("hash"):
        f.add("hash")
    for k, name in (("deact", "deactivated"), ("created", "created"), ("updated", "updated"), ("src", "sources")):
        if a.get(k) != b.get(k):
            f.add(name)
    if a.get("prevHash") != b.get("prevHash"):
        xa, xb = by_hash(pa, a.get("prevHash")), by_hash(pb, b.get("prevHash"))
        sub = classify_docs(xa.get("doc", ""), xb.get("doc", "")) if xa and xb else set()
        f |= (sub or {"previous-hash"})
    return f


def diff_projections(pa, pb):
    fields = set()
    if pa["conflictedCount"] != pb["conflictedCount"]:
        fields.add("conflictedCount")
    if pa["documentCount"] != pb["documentCount"]:
        fields.add("documentCount")
    if pa["history"] != pb["history"]:
        fields.add("published-history")
    for section in ("answers", "conflicted", "iterate"):
        ka, kb = pa[section], pb[section]
        if section != "answers" and set(ka) != set(kb):
            fields.add(section + "-set")
        late = []
        for q in sorted(set(ka) & set(kb)):
            if ka[q] != kb[q]:
                if "|hash" in q and ":h:" in q:
                    late.append(q)      # query by the hash of a MERGED document: the question itself depends on the merge result
                else:
                    fields |= classify_answers(pa, pb, pa["table"][ka[q]], pb["table"][kb[q]])
        if late and not (fields & {"controller-order", "service-content", "document"}):
            # the merge results agree, so the same hash must give the same answer
            for q in late:
                fields |= classify_answers(pa, pb, pa["table"][ka[q]], pb["table"][kb[q]])
        if section == "answers":
            # queries named after a content dependent hash exist on one side only; everything else must exist on both
            for q in set(ka) ^ set(kb):
                if "|hash" not in q or ":h:" not in q:
                    fields.add("query-set")
    return fields or {"fingerprint"}


def store_scripts(beh, quick, rnd):
    by_sc = collections.defaultdict(list)
    for b in beh:
        by_sc[b["sc"]].append(b)
    scripts = []
    for sc in sorted(by_sc):
        l = sorted(by_sc[sc], key=lambda b: json.dumps(b["steps"], sort_keys=True))
        if quick and len(l) > 24:
            l = rnd.sample(l, 24)
        for i, b in enumerate(l):
            scripts.append(dict(id="%s-%04d" % (sc, i), sc=sc, steps=b["steps"]))
    return scripts, {sc: len(v) for sc, v in by_sc.items()}


def judge_store(prop, rep, results, base_input, scripts_by_id):
    """verdicts from the real observables: per-run oracles of the driver + pairwise equality of stores fed the same event set"""
    stats = collections.Counter()
    finals = collections.defaultdict(dict)     # frozenset(events) -> fp -> (script id, projection)
    lights = collections.defaultdict(dict)
    for r in results:
        sc = scripts_by_id[r["id"]]
        if r.get("error"):
            rep.inconclusive.append("script %s: %s" % (r["id"], r["error"][:400]))
            continue
        stats["checks"] += r.get("checks", 0)
        stats["drift"] += len(r.get("drift") or [])
        stats["runs"] += len(r.get("runs") or [])
        for d in (r.get("drift") or [])[:1]:
            if stats["drift_printed"] < 3:
                rep.notes.append("DRIFT: %s %s" % (r["id"], d[:400]))
                stats["drift_printed"] += 1
        for v in r["violations"]:
            sig = dict(kind=v["kind"])
            if v.get("field"):
                sig["field"] = v["field"]
            rep.violation(sig, dict(property=prop, violation=v, input=dict(base_input, scripts=[sc])))
        evs = [s["e"] for s in sc["steps"]]
        for ri in r.get("runs") or []:
            key = frozenset(evs)
            finals[key].setdefault(ri["final"], (r["id"], r["projections"][ri["final"]]))
            arrived = set()
            for e, fp in zip(evs, ri["steps"]):
                arrived.add(e)
                lights[(r["sc"], frozenset(arrived))].setdefault(fp, (r["id"], r["light"][fp]))
    for kind, groups in (("final", finals), ("prefix", lights)):
        for key, fps in groups.items():
            stats["event_sets_compared"] += 1
            if len(fps) <= 1:
                continue
            stats["event_sets_diverging"] += 1
            items = sorted(fps.items())
            ref_id, ref_proj = items[0][1]
            for fp, (sid, proj) in items[1:]:
                for f in sorted(diff_projections(ref_proj, proj)):
                    sig = dict(kind="diverging-stores", field=f)
                    two = [scripts_by_id[ref_id]] + ([scripts_by_id[sid]] if sid != ref_id else [])
                    ev = sorted(key[1] if isinstance(key, tuple) else key)
                    rep.violation(sig, dict(property=prop, violation=dict(kind="diverging-stores", field=f, events=ev, stage=kind,
                                                                      detail="real stores fed the same event set %s answer differently (%s vs %s)" % (ev, ref_id, sid)),
                                            input=dict(base_input, k=max(40, base_input.get("k", 5)), scripts=two)))
    return stats


def run_store(prop, tier, seed, rep, t0):
    quick = tier == "quick"
    rnd = random.Random(seed)
    binary = driver_binary()
    models, cover = [], {}
    m = tlc_ok("DidStore.store.%s.cfg" % tier, not quick, "prescriptive store")
    models.append(model_entry("DidStore.store.%s.cfg" % tier, m, invariants="OrderIndependent CountersExact ResolveStable ConflictResolvedByJoin DeactivatedSticky TimeRespectsDeactivation DeactivatedForever"))
    cover.update(m.coverage)
    states, transitions = m.distinct, m.generated
    if not quick and not cover.get("Add"):
        raise Inconclusive("vacuous model run: action Add never fired (%s)" % cover)
    if not quick:
        d, found = tlc_expect_violation("DidStore.store.desc.cfg", ("OrderIndependent", "CountersExact", "TimeRespectsDeactivation"))
        models.append(model_entry("DidStore.store.desc.cfg", d, expected_violation=d.violation, note="the store as implemented: TLC finds the deviation"))
        if not found:
            raise Inconclusive("the descriptive store model does not violate OrderIndependent/CountersExact: deviation constants are vacuous")
    g = vlib.tlc("MCDidStore", "DidStore.store.gen.cfg", workers=WORKERS, timeout=1800)
    if not g.ok:
        raise Inconclusive("generation run failed: %s %s" % (g.violation, g.error))
    tables, beh = split_printed(g.printed)
    models.append(model_entry("DidStore.store.gen.cfg", g, note="all arrival orders"))
    scripts, per_sc = store_scripts(beh, quick, rnd)
    k = 5 if quick else 6
    base_input = dict(mode="store", tables=tables, k=k, dids=["A", "B", "C"])
    results = vlib.run_driver_parallel(binary, dict(base_input, scripts=scripts), shards=SHARDS, timeout=1500)
    by_id = {s["id"]: s for s in scripts}
    stats = judge_store(prop, rep, results, base_input, by_id)
    if len(rep.inconclusive) <= max(1, len(results) // 100):
        rep.inconclusive = []
    # recorded traces of the real store are validated by TLC against the descriptive model
    traces = [t for r in results if not r.get("error") for t in (r.get("traces") or []) if t]
    traces.sort(key=lambda t: json.dumps(t, sort_keys=True))
    rnd.shuffle(traces)
    traces = traces[:(30 if rep.violations else 220 if quick else 1039)]     # a verdict exists already: no need to bisect many rejected traces
    acc, rej = vlib.validate_traces("TraceDidStore", "DidStore.trace.store.cfg", traces, timeout=1500)
    trace_verdicts(prop, rep, traces, acc, rej)
    sample = next((s for s in scripts if s["sc"] == "S09"), scripts[0])
    cov = dict(states=states, transitions=transitions, traces_validated_against_impl=acc + len(rej), traces_accepted=acc, traces_rejected=len(rej),
               samples=[dict(scenario=sample["sc"], arrival_order=[s["e"] for s in sample["steps"]], predicted_after_last_add=sample["steps"][-1].get("exp")),
                        dict(real_trace=traces[0][:6]) if traces else {}],
               models=models, arrival_orders_available=len(beh), arrival_orders_replayed=len(scripts), orders_per_scenario=per_sc,
               fresh_stores_run=stats["runs"], repetitions_per_order=k, oracle_evaluations=stats["checks"],
               event_sets_compared_pairwise=stats["event_sets_compared"], event_sets_diverging=stats["event_sets_diverging"],
               drift_notes=stats["drift"], action_coverage=cover, exhaustive=not quick,
               known_findings_reproduced=sorted(rep.known),
               rule="TLC visits every subset of every scenario (every arrival order is a path) and checks the prescriptive store model against the fold "
                    "of the sorted event set; every arrival order emitted by TLC (quick: <= 24 per scenario) is replayed k times on fresh real stores; "
                    "the property is evaluated on the real Resolve/Count/Conflicted answers (open branches = source transactions, join resolves, "
                    "deactivation sticks, counters exact) and all stores fed the same event set are compared pairwise; traces are validated by TLC")
    vlib.write_evidence(prop, tier, seed, "model_checking", cov, time.time() - t0, len(rep.violations), ASSUMPTIONS)
    return rep.finish()


def trace_verdicts(prop, rep, traces, acc, rej):
    for x in rej[:5]:
        rep.notes.append("DRIFT: trace %d rejected at event %s (%s)" % (x["index"], json.dumps(x["event"])[:300], x["kind"]))
    for x in rej:
        if x["kind"].startswith("invariant:"):
            # a property invariant failed on the state reconstructed from a REAL execution
            rep.violation(dict(kind="trace-" + x["kind"]), dict(property=prop, trace=traces[x["index"]], rejected=x))
    if len(rej) > max(3, len(traces) // 10) and not rep.violations:
        rep.inconclusive.append("%d of %d recorded traces are not behaviours of the specification (spec/code drift)" % (len(rej), len(traces)))


# ------------------------------------------------------------------------------------------------ C09

def nil_safe(cfg):
    """ValidatorNilSafe of a cfg: FALSE while the code dereferences null / keyless verification methods (repaired by 875b84f)"""
    txt = open(os.path.join(vlib.SPEC, "cfg", cfg)).read()
    return re.search(r"ValidatorNilSafe = (\w+)", txt).group(1) == "TRUE"


def open_panics(cfg):
    """OpenPanics of a cfg: defect classes that still end in a nil dereference (open known finding)"""
    txt = open(os.path.join(vlib.SPEC, "cfg", cfg)).read()
    return set(re.findall(r'"([\w@:-]+)"', re.search(r"OpenPanics = \{(.*?)\}", txt).group(1)))


def expected(df, st, t, nilsafe=True, panics=()):
    if not st["sigok"][t]:
        return "rejected"
    if df in panics or (df in PANIC and not nilsafe):
        return "panic"
    if df in LAX:
        return st["verdicts"][t]
    return "rejected"


def amb_scripts(states, prefix, defects, carriers, n_states, n_defect_probes, rnd, nilsafe=True, kinds=None, panics=()):
    states = sorted(states, key=lambda s: json.dumps(s["path"], sort_keys=True))
    if n_states and len(states) > n_states:
        # keep the shortest and the longest paths, sample the rest
        states.sort(key=lambda s: len(s["path"]))
        keep = states[:10] + states[-10:]
        rest = states[10:-10]
        states = keep + rnd.sample(rest, n_states - len(keep))
    defects = sorted(defects)
    kinds = sorted(kinds or [])
    cursor = 0
    scripts = []
    for i, st in enumerate(states):
        probes = [dict(t=t, df="none", res=v, auth=st["authorised"][t]) for t, v in sorted(st["verdicts"].items())]
        # defect probes: the classes in rotation; carried by a transaction that would be accepted in this state with its
        # well-formed document (then the document alone decides), every fifth one by any carrier
        present = [c for c in carriers if c in st["verdicts"]]
        eff = [c for c in present if st["verdicts"][c] == "accepted"] or present
        for j in range(n_defect_probes if present and defects else 0):
            df = defects[cursor % len(defects)]
            pool = present if cursor % 5 == 4 else eff
            c = pool[(cursor // len(defects) + j) % len(pool)]
            cursor += 1
            probes.append(dict(t=c, df=df, res=expected(df, st, c, nilsafe, panics), auth=st["authorised"][c]))
        # one well-formed document with a verification method of another kind (no prediction by the model)
        if present and kinds:
            probes.append(dict(t=eff[i % len(eff)], df="ok@" + kinds[i % len(kinds)], res="", auth=st["authorised"][eff[i % len(eff)]]))
        rnd.shuffle(probes)
        scripts.append(dict(id="%s%05d" % (prefix, i), steps=st["path"], probes=probes))
    return scripts


def judge_amb(prop, rep, results, base_input, scripts_by_id):
    stats = collections.Counter()
    verdicts = collections.Counter()
    for r in results:
        sc = scripts_by_id[r["id"]]
        if r.get("error"):
            rep.inconclusive.append("script %s: %s" % (r["id"], r["error"][:600]))
            continue
        stats["checks"] += r.get("checks", 0)
        stats["receives"] += r.get("receives", 0)
        stats["drift"] += len(r.get("drift") or [])
        for key, n in (r.get("verdicts") or {}).items():
            verdicts[key] += n
        for d in (r.get("drift") or [])[:1]:
            if stats["drift_printed"] < 3:
                rep.notes.append("DRIFT: %s %s" % (r["id"], d[:400]))
                stats["drift_printed"] += 1
        for v in r["violations"]:
            sig = dict(kind=v["kind"])
            if v["kind"] in ("panic", "malformed-accepted"):
                sig["defect"] = v.get("defect", "")
            elif v["kind"] == "unauthorised-accepted":
                sig["tx"] = v.get("tx", "")
            elif v.get("field"):
                sig["field"] = v["field"]
            small = dict(sc, probes=[p for p in sc.get("probes", []) if p["t"] == v.get("tx") and p["df"] == (v.get("defect") or "none")] or sc.get("probes", []))
            rep.violation(sig, dict(property=prop, violation=v, input=dict(base_input, scripts=[small])))
    return stats, verdicts


def run_amb(prop, tier, seed, rep, t0):
    quick = tier == "quick"
    rnd = random.Random(seed)
    binary = driver_binary()
    models, cover = [], {}
    states = transitions = 0
    check_cfgs = ["DidStore.amb.%s.cfg" % tier, "DidStore.chain.cfg", "DidStore.hist.%s.cfg" % tier]
    for cfg in check_cfgs:
        # -coverage slows TLC down by an order of magnitude and, with the history-based reference operators, made the chain configuration
        # run out of memory: the vacuity guard of the thorough tier uses the small history configuration
        m = tlc_ok(cfg, (not quick) and cfg == "DidStore.hist.thorough.cfg", "prescriptive receive pipeline")
        models.append(model_entry(cfg, m, properties="KeysChangeOnlyByAuthorized RejectedChangesNothing NoPanic StoredWereAccepted DeactivatedForever OrderIndependent CountersExact"))
        cover.update(m.coverage)
        states += m.distinct
        transitions += m.generated
    if not quick and not cover.get("Receive"):
        raise Inconclusive("vacuous model run: action Receive never fired (%s)" % cover)
    if not quick:
        d, found = tlc_expect_violation("DidStore.amb.desc.cfg", ("NoPanic", "KeysChangeOnlyByAuthorized"))
        models.append(model_entry("DidStore.amb.desc.cfg", d, expected_violation=d.violation, note="the pipeline as implemented: TLC finds the deviation"))
        if not found:
            raise Inconclusive("the descriptive pipeline model violates neither NoPanic nor KeysChangeOnlyByAuthorized: deviation constants are vacuous")
        # the history universe and the reference must SEE a store that orders versions by signing time / forgets a merged deactivation
        for cfg in ("DidStore.hist.dev.clock.cfg", "DidStore.hist.dev.deact.cfg"):
            d, found = tlc_expect_violation(cfg, ("KeysChangeOnlyByAuthorized",))
            models.append(model_entry(cfg, d, expected_violation=d.violation, note="design variant the property forbids: TLC finds the unauthorised update"))
            if not found:
                raise Inconclusive("%s does not violate KeysChangeOnlyByAuthorized: the history universe is blind to this class" % cfg)
    all_results, by_id, all_traces = [], {}, []
    n_states_total = 0
    base_inputs = {}
    plans = [("DidStore.amb.gen%s.cfg" % ("" if quick else ".thorough"), "m", ["A", "B", "C"], (["cA", "uA1", "uAx"] if quick else ["cA", "uA1", "uAx", "uAbB"]),
              (60 if quick else 400), (6 if quick else 8)),
             ("DidStore.chain.gen.cfg", "c", ["D1", "D2", "D3", "D4", "D5", "D6", "D7"], ["h1", "g2"], (24 if quick else 0), 2),
             # kinds of history (a branch merged with a deactivation, of the DID and of its controller; signing times that contradict
             # the lamport clock): every state of the sub-universes, every transaction of the sub-universe received there
             ("DidStore.hist.gen%s.cfg" % ("" if quick else ".thorough"), "h", ["A", "B", "C"], [], 0, 0)]
    tables = None
    for cfg, prefix, dids, carriers, n_states, n_def in plans:
        # workers=1: the witness path printed for a state is then a function of the model alone (reproducible runs)
        g = vlib.tlc("MCDidStore", cfg, workers=1 if quick else WORKERS, timeout=2400)
        if not g.ok:
            raise Inconclusive("generation run %s failed: %s %s" % (cfg, g.violation, g.error))
        tables, sts = split_printed(g.printed)
        sts = [s for s in sts if isinstance(s, dict) and "path" in s]
        n_states_total += len(sts)
        models.append(model_entry(cfg, g, note="one witness path per distinct state + verdict table"))
        scripts = amb_scripts(sts, prefix, tables["Defects"], carriers, n_states, n_def, rnd, nil_safe(cfg), tables.get("VMKinds"), open_panics(cfg))
        base_input = dict(mode="ambassador", tables=tables, k=1, dids=dids)
        base_inputs[prefix] = base_input
        rs = vlib.run_driver_parallel(binary, dict(base_input, scripts=scripts), shards=SHARDS, timeout=1500)
        for s in scripts:
            by_id[s["id"]] = s
        for r in rs:
            r["prefix"] = prefix
        all_results += rs
    stats, verdicts = collections.Counter(), collections.Counter()
    for prefix, base_input in base_inputs.items():
        s, v = judge_amb(prop, rep, [r for r in all_results if r["prefix"] == prefix], base_input, by_id)
        stats.update(s)
        verdicts.update(v)
    if len(rep.inconclusive) <= max(1, len(all_results) // 100):
        rep.inconclusive = []
    traces = [t for r in all_results if not r.get("error") for t in (r.get("traces") or []) if t]
    traces.sort(key=lambda t: json.dumps(t, sort_keys=True))
    rnd.shuffle(traces)
    traces = traces[:(30 if rep.violations else 80 if quick else 400)]
    traces = [[{k: v for k, v in e.items() if k != "quiet"} for e in t] for t in traces]
    acc, rej = vlib.validate_traces("TraceDidStore", "DidStore.trace.amb.cfg", traces, timeout=1500)
    trace_verdicts(prop, rep, traces, acc, rej)
    classes = collections.Counter()
    for key, n in verdicts.items():
        t, df, v = key.split("/")
        classes[("well-formed" if df == "none" else df) + " -> " + v] += n
    some = next(iter(by_id.values()))
    cov = dict(states=states, transitions=transitions, traces_validated_against_impl=acc + len(rej), traces_accepted=acc, traces_rejected=len(rej),
               samples=[dict(history=[s["t"] for s in some["steps"]], probes=some["probes"][:8]), dict(real_trace=traces[0][:5]) if traces else {}],
               models=models, model_states_available=n_states_total, states_replayed_on_real_code=len(all_results),
               transactions_received_by_real_code=stats["receives"], oracle_evaluations=stats["checks"],
               real_verdicts_by_document_class=dict(sorted(classes.items())),
               distinct_transaction_defect_verdict_triples=len(verdicts),
               drift_notes=stats["drift"], action_coverage=cover, exhaustive=not quick and len(all_results) >= n_states_total,
               known_findings_reproduced=sorted(rep.known),
               rule="TLC exhausts the receive pipeline model (every delivery sequence of the transaction universe x every defect class) and checks "
                    "KeysChangeOnlyByAuthorized / RejectedChangesNothing against the declarative reference; for every distinct model state (sampled in quick) "
                    "the witness history is replayed on the real verifier + ambassador + store and EVERY transaction of the universe (+ defective documents) "
                    "is received there; accepted => authorised by a reference over the HISTORY of accepted transactions (versions, their order by lamport clock, "
                    "merged branches and deactivation derived from the published documents, not read from the store) and well-formed by a reference over the raw JSON; "
                    "rejected/panic => resolvable state and authorised keys of every DID unchanged; traces are validated by TLC")
    vlib.write_evidence(prop, tier, seed, "model_checking", cov, time.time() - t0, len(rep.violations), ASSUMPTIONS)
    return rep.finish()


# ------------------------------------------------------------------------------------------------ entry

def run(prop, tier, seed, replay=None):
    t0 = time.time()
    rep = Report(prop)
    if replay:
        obj = json.load(open(replay))
        if obj.get("property") != prop:
            raise Inconclusive("replay file belongs to %s" % obj.get("property"))
        if "input" not in obj:       # a rejected trace: validate it again
            acc, rej = vlib.validate_traces("TraceDidStore", "DidStore.trace.%s.cfg" % ("store" if prop == "C10" else "amb"), [obj["trace"]])
            trace_verdicts(prop, rep, [obj["trace"]], acc, rej)
            return rep.finish()
        binary = driver_binary()
        inp = obj["input"]
        res = vlib.run_driver(binary, inp)
        by_id = {s["id"]: s for s in inp["scripts"]}
        base = {k: v for k, v in inp.items() if k != "scripts"}
        for r in res:
            print(json.dumps(dict(id=r["id"], violations=r["violations"], drift=r["drift"][:3], error=r.get("error")))[:3000])
        if inp["mode"] == "store":
            judge_store(prop, rep, res, base, by_id)
        else:
            judge_amb(prop, rep, res, base, by_id)
        return rep.finish()
    if tier not in ("quick", "thorough"):
        raise Inconclusive("unknown tier " + tier)
    if prop == "C10":
        return run_store(prop, tier, seed, rep, t0)
    return run_amb(prop, tier, seed, rep, t0)
