"""C18: DidResolve.tla <-> vdr/didweb, didjwk, didkey, didsubject resolver, vdr wiring, http/client (real resolvers behind a
recording dialer and local TLS / plain HTTP test servers).

TLC enumerates the complete product of abstract classes (identifier host class x path class x server answer x local history x
metadata; did:jwk / did:key validity) and predicts verdict + fetches; this module turns every abstract case into concrete
identifiers / server scripts (tables below: the expected origin of every concrete identifier is given BY CONSTRUCTION, it is not
computed by a parser that could share a bug with the code under test), runs them on the real code and evaluates the property
statement on the observed dials / requests / returned document."""
import json, os, random, re, time
from urllib.parse import unquote
from .. import vlib
from ..vlib import Report, Inconclusive

PROPS = ["C18"]
PUBLIC_URL = "https://node.verif-nuts.nl"   # public URL of the node under test (not RFC2606 reserved: strict mode accepts it)

# ---------------------------------------------------------------------------------------------- concrete identifier parts
# host class -> variants (idpart, expected dial host, expected dial port); host None = the identifier names no fetchable host:
# resolution must fail without any connection attempt.
H = lambda i, h, p=443: dict(id=i, host=h, port=p)
HOSTS = {
    "name":        [H("example.com", "example.com"), H("sub.domain.example.com", "sub.domain.example.com"), H("nuts-node.nl", "nuts-node.nl"),
                    H("xn--xample-9ua.com", "xn--xample-9ua.com"), H("localhost", "localhost"), H("a_b.example.org", "a_b.example.org")],
    "nameport":    [H("example.com%3A8443", "example.com", 8443), H("example.com%3A443", "example.com", 443),
                    H("localhost%3A3000", "localhost", 3000), H("sub.example.com%3A1", "sub.example.com", 1)],
    "mixedcase":   [H("Example.COM", "example.com"), H("EXAMPLE.com%3A8443", "example.com", 8443), H("eXaMpLe.CoM", "example.com")],
    "lowerhex":    [H("example.com%3a8443", "example.com", 8443)],
    "pctalpha":    [H("%65xample.com", "example.com"), H("example%2Ecom", "example.com"), H("ex%61mple.com%3A8443", "example.com", 8443)],
    "trailingdot": [H("example.com.", "example.com."), H("example.com.%3A8443", "example.com.", 8443)],
    "idn":         [H("%C3%A9xample.com", "xn--xample-9ua.com"), H("b%C3%BCcher.example", "xn--bcher-kva.example")],
    "emptyport":   [H("example.com%3A", "example.com"), H("example.com%3A%3A", "example.com")],
    # names to net.ParseIP, addresses to inet_aton: accepted by the code (NOTE, see oracle)
    "numeric":     [H("2130706433", "2130706433"), H("127.1", "127.1"), H("0x7f000001", "0x7f000001"), H("0177.0.0.1", "0177.0.0.1"),
                    H("017700000001", "017700000001"), H("2130706433%3A8443", "2130706433", 8443)],
    "emptyhost":   [H("%3A443", "", 443), H("%3A8443", "", 8443)],
    "ipv4":        [H("127.0.0.1", None), H("10.0.0.1", None), H("169.254.169.254", None), H("192.168.1.1", None), H("0.0.0.0", None), H("8.8.8.8", None)],
    "ipv4port":    [H("127.0.0.1%3A8443", None), H("169.254.169.254%3A443", None), H("10.0.0.1%3A1", None)],
    "ipv6":        [H("%5B%3A%3A1%5D", None), H("%5Bfe80%3A%3A1%5D", None), H("%5B2001%3Adb8%3A%3A1%5D", None), H("%5B%3A%3A%5D", None)],
    "ipv6port":    [H("%5B%3A%3A1%5D%3A8443", None), H("%5B2001%3Adb8%3A%3A1%5D%3A443", None)],
    "ipv6zone":    [H("%5Bfe80%3A%3A1%2525eth0%5D", None), H("%5Bfe80%3A%3A1%25eth0%5D", None)],
    "ipv4mapped":  [H("%5B%3A%3Affff%3A127.0.0.1%5D", None), H("%5B%3A%3Affff%3A7f00%3A1%5D", None)],
    "userinfo":    [H("user%40example.com", None), H("user%3Apw%40example.com", None), H("evil.example%40example.com", None),
                    H("%40example.com", None), H("example.com%40127.0.0.1", None), H("example.com%3A443%40evil.example", None)],
    "pctslash":    [H("example.com%2Fpath", None), H("example.com%2F", None), H("evil.example%2F.example.com", None), H("example.com%2F..%2F", None)],
    "pcthash":     [H("example.com%23frag", None), H("evil.example%23.example.com", None)],
    "pctquery":    [H("example.com%3Fq", None), H("evil.example%3F.example.com", None)],
    "backslash":   [H("example.com%5C%40evil.example", None), H("evil.example%5C.example.com", None), H("example.com%5C", None)],
    "badport":     [H("example.com%3Aabc", None), H("example.com%3A8443x", None), H("example.com%3A-1", None), H("example.com%3A%2080", None)],
    "dblenc":      [H("example.com%252Fpath", None), H("example.com%253A8443", None), H("example.com%2540evil.example", None)],
    "control":     [H("example.com%20", None), H("exa%09mple.com", None), H("example.com%00", None), H("example.com%0D%0AHost%3A%20evil.example", None),
                    H("exam%20ple.com", None)],
}
# hosts the code accepts although they are not domain names in the everyday sense; the statement does not exclude them -> NOTE only
NOTE_HOSTS = {"numeric": "numeric host accepted (an IPv4 address to inet_aton/getaddrinfo; a name to net.ParseIP and the pure-Go resolver)",
              "emptyhost": "identifier without host part accepted: connection attempt to ':<port>' (the local machine)"}

# path class -> variants (idpart, expected path segments after one round of percent-decoding | None = identifier must be refused,
# decoys = OTHER locations on the same host that a canonicalisation of the path leads to - decoding once more, cleaning "." / ".."
# segments, folding case - written out by hand: typically the location another identifier encodes, e.g. /b/did.json for ":a:..:b")
P = lambda i, s, decoys=(): dict(id=i, segs=s, decoys=list(decoys))
PATHS = {
    "none":      [P("", [])],
    "segs":      [P(":a:b", ["a", "b"]), P(":iam:5a1c4b1e-7f3b-4c1e-9d37-0d8f2c6a9e11", ["iam", "5a1c4b1e-7f3b-4c1e-9d37-0d8f2c6a9e11"]), P(":a", ["a"]),
                  P(":a-b_c.d:e:f:g", ["a-b_c.d", "e", "f", "g"]), P(":a1:b2:c3", ["a1", "b2", "c3"]),
                  P(":Tenants:Admin", ["Tenants", "Admin"], ["/tenants/admin/did.json", "/TENANTS/ADMIN/did.json"]),
                  P(":users:Alice", ["users", "Alice"], ["/users/alice/did.json"])],
    "subdelims": [P(":alice%2Band%2Bbob:path", ["alice+and+bob", "path"]), P(":a%40b", ["a@b"]), P(":a%3Ab", ["a:b"]), P(":%7Euser", ["~user"]),
                  P(":a%3Db%26c%2Cd%3Be", ["a=b&c,d;e"]), P(":%21%24%27%28%29%2A", ["!$'()*"])],
    "pctother":  [P(":a%20b", ["a b"]), P(":%C3%A9", ["é"]), P(":a%22b", ['a"b']), P(":a%5Bb%5D", ["a[b]"]), P(":x:a%3Cb%3E", ["x", "a<b>"])],
    "pctslash":  [P(":a%2Fb", ["a/b"], ["/a/b/did.json"]), P(":a%2F..%2F..%2Fb", ["a/../../b"], ["/a/../../b/did.json", "/b/did.json"]),
                  P(":%2F%2Fevil.example", ["//evil.example"]), P(":x:y%2Fz", ["x", "y/z"], ["/x/y/z/did.json"])],
    "pctqf":     [P(":a%3Fb", ["a?b"]), P(":a%23b", ["a#b"]), P(":a%3Fb%23c", ["a?b#c"])],
    "dblenc":    [P(":a%252Fb", ["a%2Fb"], ["/a%2Fb/did.json", "/a/b/did.json"]), P(":a%2520b", ["a%20b"], ["/a%20b/did.json"]),
                  P(":a%253A", ["a%3A"], ["/a%3A/did.json", "/a:/did.json"]), P(":%2525", ["%25"], ["/%25/did.json"])],
    "dot":       [P(":a:..:b", ["a", "..", "b"], ["/b/did.json"]), P(":..:..:etc", ["..", "..", "etc"], ["/etc/did.json"]),
                  P(":.:a", [".", "a"], ["/a/did.json"]), P(":.well-known", [".well-known"]),
                  P(":tenants:..:admin", ["tenants", "..", "admin"], ["/admin/did.json"]), P(":a:.", ["a", "."], ["/a/did.json"]),
                  P(":a:b:..", ["a", "b", ".."], ["/a/did.json"]), P(":..", [".."], ["/did.json", "/.well-known/did.json"]),
                  P(":%2E%2E:x", ["..", "x"], ["/x/did.json"]), P(":a:%2E:b", ["a", ".", "b"], ["/a/b/did.json"])],
    "empty":     [P(":a::b", None), P("::a", None), P(":::", None), P(":a:b::", None)],
    "trailing":  [P(":a:", None), P(":", None), P(":a:b:", None)],
}

CT_OK = ["application/did+ld+json", "application/did+json", "application/json", "application/json; charset=utf-8", "Application/JSON",
         "application/did+json;profile=\"x\""]
CT_BAD = ["text/html", "text/plain", "application/jwt", "application/octet-stream", "", "application/json+ld", "json", "application/xml",
          "application/did+cbor", ";;;"]
REDIRECT_CODES = [301, 302, 303, 307, 308]


def S(status=200, ctype="application/json", body="doc", body_id="", location="", serve_at=None):
    d = dict(status=status, ctype=ctype, body=body, body_id=body_id, location=location)
    if serve_at:
        d["serve_at"] = list(serve_at)     # the scripted answer exists at these request paths only; every other path answers 404
    return d


def answer_variants(ans, did, hv, pv):
    """Concrete server scripts of an abstract answer class for the identifier `did`."""
    hostport = hv["host"] if hv["host"] is not None else "example.com"
    if hv["host"] is not None and hv["port"] != 443:
        hostport += ":%d" % hv["port"]
    if ans == "ok":
        return [S(ctype=c) for c in CT_OK]
    if ans == "ok-2xx":
        return [S(status=s) for s in (201, 203, 299)]
    if ans == "ct-bad":
        return [S(ctype=c) for c in CT_BAD]
    if ans == "id-mismatch":
        other = ["did:web:other.example" + pv["id"],                               # another host
                 did + ":x",                                                       # a child of the requested DID
                 did.rsplit(":", 1)[0] if pv["id"] else did + "%3A443",            # its parent / the same host with explicit port
                 "did:web:" + hv["id"].swapcase() + pv["id"],                      # differs in case only
                 "did:web:" + hv["id"] if pv["id"] else did + ":iam",              # the root DID of the host
                 "did:jwk:" + did[8:], did + "%20", did[:-1]]
        return [S(body_id=o) for o in other if o != did]
    if ans == "id-missing":
        return [S(body="noid")]
    if ans == "bad-json":
        return [S(body="badjson"), S(body="empty")]
    if ans == "empty-2xx":
        return [S(status=204, body="empty"), S(status=205, body="empty")]
    if ans == "status-err":
        return [S(status=s) for s in (404, 500, 403, 401, 410, 503, 400)]
    if ans == "oversize":
        return [S(body="oversize")]
    codes = REDIRECT_CODES
    if ans == "redir-samehost":
        return [S(status=c, ctype="text/plain", body="empty", location=l) for c in codes
                for l in ("https://%s/moved/did.json" % hostport, "/moved/did.json")]
    if ans == "redir-otherhost":
        return [S(status=c, ctype="text/plain", body="empty", location=l) for c in codes
                for l in ("https://other.example/x/did.json", "https://%s.evil.example/did.json" % (hv["host"] or "x").rstrip("."), "//other.example/did.json")]
    if ans == "redir-http":
        return [S(status=c, ctype="text/plain", body="empty", location=l) for c in codes
                for l in ("http://%s/x/did.json" % (hv["host"] or "example.com"), "http://other.example/x/did.json")]
    if ans == "redir-http-ip":
        return [S(status=c, ctype="text/plain", body="empty", location=l) for c in codes
                for l in ("http://169.254.169.254/latest/meta-data", "http://127.0.0.1:8080/internal/x", "http://[::1]/did.json")]
    if ans == "redir-https-ip":
        return [S(status=c, ctype="text/plain", body="empty", location=l) for c in codes
                for l in ("https://127.0.0.1/x/did.json", "https://10.0.0.1:8443/did.json")]
    raise KeyError(ans)


REDIR_TO = {"redir-otherhost": "other-host", "redir-http": "http", "redir-http-ip": "http-ip", "redir-https-ip": "https-ip"}

# did:key / did:jwk: (keytype, defect) per abstract validity class
KEYS = {
    ("key", "valid"): [("ed25519", ""), ("p256", ""), ("p384", ""), ("p521", ""), ("rsa2048", ""), ("x25519", "")],
    ("key", "invalid"): [("ed25519", "truncated"), ("ed25519", "extended"), ("p256", "truncated"), ("p256", "garbage-point"), ("p384", "garbage-point"),
                         ("p521", "garbage-point"), ("rsa1024", ""), ("rsa2048", "truncated"), ("secp256k1", ""), ("bls", ""), ("unknown", ""),
                         ("ed25519", "no-z"), ("ed25519", "bad-base58"), ("ed25519", "empty-key")],
    ("jwk", "valid"): [("p256", ""), ("p384", ""), ("p521", ""), ("ed25519", ""), ("rsa2048", "")],
    ("jwk", "invalid"): [("p256", "private"), ("ed25519", "private"), ("rsa2048", "private"), ("p256", "bad-base64"), ("p256", "not-json"),
                         ("p256", "truncated"), ("p256", "symmetric")],
}


# ---------------------------------------------------------------------------------------------- concretisation

def pick(rnd, variants, k):
    if k is None or k >= len(variants):
        return list(variants)
    return rnd.sample(variants, k)


def concretise(pred, rnd, k):
    """One abstract TLC case -> list of concrete driver cases (k variants per dimension; None = all)."""
    c = pred["case"]
    out = []
    if c["m"] in ("jwk", "key"):
        for kt, defect in pick(rnd, KEYS[(c["m"], c["key"])], k):
            out.append(dict(kind=c["m"], keytype=kt, defect=defect, meta=c["meta"], order=c["built"]))
        return out
    if c["local"] != "none":
        hv, pv = HOSTS["name"][0], PATHS["segs"][0]
        for s in pick(rnd, answer_variants(c["ans"], "did:web:managed", hv, pv), k):
            out.append(dict(kind="managed", local=c["local"], meta=c["meta"], server=s, order=c["built"], hist=c["hist"], ahead=c["ahead"]))
        return out
    decoy = c.get("site") == "decoy"
    pvs = [pv for pv in PATHS[c["path"]] if pv["decoys"]] if decoy else PATHS[c["path"]]
    for hv in pick(rnd, HOSTS[c["host"]], k):
        for pv in pick(rnd, pvs, k):
            did = "did:web:" + hv["id"] + pv["id"]
            for s in pick(rnd, answer_variants(c["ans"], did, hv, pv), k):
                if decoy:
                    s = dict(s, serve_at=pv["decoys"])
                out.append(dict(kind="web", did=did, server=s, local="none", meta=c["meta"], order=c["built"], site=c.get("site", "enc"),
                                x=dict(host=hv["host"], port=hv["port"], segs=pv["segs"])))
    return out


def roundtrip_cases(rnd, k):
    """The algebraic law, both directions, on every (host class x path class) pair."""
    out = []
    for hc, hvs in sorted(HOSTS.items()):
        for pc, pvs in sorted(PATHS.items()):
            for hv in pick(rnd, hvs, k):
                for pv in pick(rnd, pvs, k):
                    did = "did:web:" + hv["id"] + pv["id"]
                    out.append(dict(kind="rt", did=did, x=dict(hc=hc, pc=pc)))
                    if hv["host"] and pv["segs"] is not None and hc in ("name", "nameport", "mixedcase"):
                        # URL -> DID -> URL: the URL a user would write for that origin (escaped path as net/url prints it)
                        out.append(dict(kind="rturl", url=None, did=did, x=dict(hc=hc, pc=pc)))
    return out


# ---------------------------------------------------------------------------------------------- oracle (property statement)

def norm_hex(s):
    return re.sub(r"%[0-9a-fA-F]{2}", lambda m: m.group(0).upper(), s)


def path_segments(escaped_path):
    return [unquote(s) for s in escaped_path.split("/")[1:]]


def remove_dot_segments(segs):
    out = []
    for s_ in segs:
        if s_ == ".":
            continue
        if s_ == "..":
            if out:
                out.pop()
            continue
        out.append(s_)
    return out


def is_ip_host(h):
    import ipaddress
    try:
        ipaddress.ip_address(h.strip("[]"))
        return True
    except ValueError:
        return False


def history_class(case):
    """Name of the clock behaviour a local history stands for (part of the violation signature)."""
    h = case.get("hist") or []
    if case.get("ahead", "none") != "none":
        return "written-ahead-of-resolver-clock"
    if any(h[i] > h[j] for i in range(len(h)) for j in range(i + 1, len(h))):
        return "stepped-back"
    if len(set(h)) < len(h):
        return "same-second"
    return "monotonic"


def judge(case, pred, r):
    """Returns (violations:list of (sig, detail), drift:list of str, notes:list of str) for one executed case."""
    viol, drift, notes = [], [], []
    kind = case["kind"]
    c = pred["case"] if pred else {}
    if r.get("error"):
        return viol, ["driver problem: " + r["error"]], notes
    if r.get("panic"):
        notes.append(("panic", "panic during resolution of %s: %s" % (r.get("did"), r["panic"][:200])))
    dials, reqs = r["dials"], r["requests"]

    if kind == "web":
        x = case["x"]
        allowed = None if x["host"] is None or x["segs"] is None else ("%s:%d" % (x["host"], x["port"])).lower()
        hc, pc, ans = c.get("host"), c.get("path"), c.get("ans")
        bad_dials = [d for d in dials if allowed is None or d.lower() != allowed]
        if bad_dials:
            if allowed is not None and ans in ("redir-http", "redir-http-ip"):
                # "only over HTTPS" covers the whole exchange: the redirect took the fetch to plain HTTP
                viol.append((dict(kind="fetch-plain-http", via="redirect", to=REDIR_TO[ans], resolver_built=case.get("order", "")),
                             "resolver built %s: 3xx answer of %s to %s was followed over plain HTTP: dials %s" % (case.get("order"), case["did"], case["server"]["location"], dials)))
            elif allowed is not None and ans in REDIR_TO:
                viol.append((dict(kind="redirect-followed", to=REDIR_TO[ans], resolver_built=case.get("order", "")),
                             "resolver built %s: 3xx answer of %s to %s was followed: dials %s" % (case.get("order"), case["did"], case["server"]["location"], dials)))
            elif x["host"] is None:
                viol.append((dict(kind="forbidden-host-fetched", host=hc), "%s: connection attempt(s) %s" % (case["did"], dials)))
            elif x["segs"] is None:
                viol.append((dict(kind="malformed-path-fetched", path=pc), "%s: connection attempt(s) %s" % (case["did"], dials)))
            else:
                viol.append((dict(kind="fetch-other-host", host=hc), "%s: expected only %s, dialled %s" % (case["did"], allowed, dials)))
        for q in reqs:
            if q["scheme"] != "https" and not (ans in REDIR_TO and q["n"] > 0):
                viol.append((dict(kind="fetch-plain-http"), "%s: plain HTTP request %s" % (case["did"], q)))
            if q["n"] == 0 and allowed is not None:
                want = x["segs"] + ["did.json"] if x["segs"] else [".well-known", "did.json"]
                got = path_segments(q["path"])
                # "." / ".." segments are part of the path the identifier encodes: a cleaned path is the location of ANOTHER identifier
                # (did:web:h:a:..:b and did:web:h:b would share one document location)
                if got != want or q["query"]:
                    viol.append((dict(kind="fetch-other-path", **{"class": pc}),
                                 "%s: identifier encodes path segments %s, request went to %s%s" % (case["did"], want, q["path"], "?" + q["query"] if q["query"] else "")))
                hosthdr = q["host"].lower().rstrip(":")
                if hosthdr not in (x["host"].lower(), allowed):
                    viol.append((dict(kind="fetch-other-host", host=hc), "%s: Host header %s" % (case["did"], q["host"])))
        if r["resolved"]:
            if r["doc_id"] != case["did"]:
                viol.append((dict(kind="id-mismatch-accepted"), "%s resolved to a document with id %s" % (case["did"], r["doc_id"])))
            if case.get("site") == "decoy" and allowed is not None:
                # the location the identifier encodes answered 404 by construction: the document came from somewhere else
                viol.append((dict(kind="fetch-other-path", resolved="document-of-another-location", **{"class": pc}),
                             "%s: nothing is published at the location the identifier encodes (%s); it resolved to the document served at %s only: request(s) %s"
                             % (case["did"], "/" + "/".join(x["segs"] + ["did.json"]), case["server"]["serve_at"], [q["path"] for q in reqs])))
            if x["host"] is None:
                viol.append((dict(kind="forbidden-host-resolved", host=hc), "%s resolved" % case["did"]))
        if hc in NOTE_HOSTS and dials:
            notes.append((hc, "%s: %s; dials %s" % (case["did"], NOTE_HOSTS[hc], dials[:2])))
        # prediction of the descriptive model (not the property): drift
        # the statement is silent on same-origin redirects and on 2xx codes other than 200: either behaviour is fine, no drift
        if pred and ans not in ("redir-samehost", "ok-2xx"):
            if (pred["outcome"] == "doc") != bool(r["resolved"]):
                # hosts the real TLS stack refuses later than the model says (no SNI for an empty host) are not interesting
                if not (hc == "emptyhost"):
                    drift.append("%s / %s: model predicts %s, code %s (%s)" % (case["did"], json.dumps(case["server"]), pred["outcome"],
                                                                          "resolved" if r["resolved"] else "error", r["err"][:120]))
            if len(pred["fetches"]) != len(reqs) and hc != "emptyhost":
                drift.append("%s: model predicts %d request(s), code made %d" % (case["did"], len(pred["fetches"]), len(reqs)))

    elif kind == "managed":
        clock = history_class(case)
        if dials or reqs:
            viol.append((dict(kind="managed-used-network", clock=clock), "%s (managed, %s, version timestamps %s): dials %s requests %s" % (r["did"], case["local"], case.get("hist"), dials, reqs)))
        if r["resolved"] and r["doc_id"] != r["did"]:
            viol.append((dict(kind="id-mismatch-accepted", where="local"), "%s resolved to %s" % (r["did"], r["doc_id"])))
        if case["local"] == "deactivated" and case["meta"] != "true" and r["resolved"]:
            viol.append((dict(kind="deactivated-resolved", meta=case["meta"], clock=clock),
                         "%s is deactivated (version timestamps %s%s) and resolved with metadata %s: version %s with %d key(s)"
                         % (r["did"], case.get("hist"), ", ahead of the clock: " + case["ahead"] if case.get("ahead", "none") != "none" else "",
                            case["meta"], "fetched from the network" if reqs else r.get("doc_version"), r.get("doc_vms", -1))))
        if case["local"] == "deactivated" and r["resolved"] and not r.get("meta_deactivated"):
            notes.append(("deact-meta", "%s is deactivated (timestamps %s) and resolved with AllowDeactivated, document metadata says deactivated=false" % (r["did"], case.get("hist"))))
        if case["local"] == "active" and r["resolved"] and r.get("doc_version") is not None and r["doc_version"] != len(case.get("hist") or [0]) - 1:
            drift.append("managed active DID with version timestamps %s resolved to version %s, not to the last one" % (case.get("hist"), r["doc_version"]))
        if pred and (pred["outcome"] == "doc") != bool(r["resolved"]):
            drift.append("managed %s meta=%s: model predicts %s, code %s (%s)" % (case["local"], case["meta"], pred["outcome"],
                                                                             "resolved" if r["resolved"] else "error", r["err"][:120]))
        if case["local"] == "deactivated" and not r["resolved"] and r["err_class"] != "deactivated":
            drift.append("deactivated managed DID failed with %r instead of ErrDeactivated" % r["err"][:120])

    elif kind in ("key", "jwk"):
        if dials or reqs:
            viol.append((dict(kind="pure-used-network", method=kind), "%s: dials %s" % (r["did"], dials)))
        if r["resolved"]:
            if r["doc_id"] != r["did"]:
                viol.append((dict(kind="id-mismatch-accepted", where=kind), "%s resolved to %s" % (r["did"], r["doc_id"])))
            if not r["stable"]:
                viol.append((dict(kind="pure-not-deterministic", method=kind), "%s: two resolutions differ" % r["did"]))
            if r.get("key_known") and not r["key_equal"]:
                viol.append((dict(kind="pure-key-not-from-identifier", method=kind), "%s: document key material / ids are not those of the identifier" % r["did"]))
        if kind == "jwk" and case["defect"] == "symmetric" and r["resolved"]:
            notes.append(("jwk-oct", "%s: did:jwk carrying a SYMMETRIC key (kty=oct) resolves to a document with that key as verification method" % r["did"]))
        elif pred and (pred["outcome"] == "doc") != bool(r["resolved"]):
            drift.append("did:%s %s/%s: model predicts %s, code %s (%s)" % (kind, case["keytype"], case["defect"], pred["outcome"],
                                                                       "resolved" if r["resolved"] else "error", r["err"][:120]))

    elif kind in ("rt", "rturl"):
        x = case["x"]
        sub = x["hc"] in ("name", "nameport", "mixedcase") and x["pc"] in ("none", "segs", "subdelims", "pctother", "pctslash", "dot")
        if kind == "rt":
            ok = bool(r.get("back")) and norm_hex(r["back"]) == norm_hex(case["did"])
            exact = bool(r.get("back")) and r["back"] == case["did"]
            what = "URLToDID(DIDToURL(%s)) = %s %s" % (case["did"], r.get("back") or "error", (r.get("err") or r.get("err2") or "").replace("\n", " / ")[:100])
        else:
            ok = bool(r.get("back")) and norm_hex(r["back"]) == norm_hex(r["url"])
            exact = ok
            what = "DIDToURL(URLToDID(%s)) = %s %s" % (r.get("url"), r.get("back") or "error", (r.get("err") or r.get("err2") or "").replace("\n", " / ")[:100])
        if sub and not ok:
            viol.append((dict(kind="roundtrip-failed", host=x["hc"], **{"class": x["pc"]}), what))
        if pred is not None and kind == "rt" and pred.get("rt") in ("ok", "fail") and (pred["rt"] == "ok") != exact:
            drift.append("round trip %s: model predicts %s, code %s" % (case["did"], pred["rt"], what))
    return viol, drift, notes


# ---------------------------------------------------------------------------------------------- run

def rt_url(case):
    """URL for the URL->DID->URL direction, derived from the identifier parts by construction."""
    did = case["did"][len("did:web:"):]
    host, _, rest = did.partition(":")
    host = unquote(host)
    segs = rest.split(":") if rest else []
    # a DID segment keeps %-escapes of everything that is not a sub-delim; sub-delims are written raw in a URL path
    subd = "~!$&'()*+,;=:@"
    def seg(s):
        return re.sub(r"%([0-9A-Fa-f]{2})", lambda m: chr(int(m.group(1), 16)) if chr(int(m.group(1), 16)) in subd else m.group(0), s)
    return "https://" + host + "".join("/" + seg(s) for s in segs)


def execute(binary, cases, seed):
    inp = dict(seed=seed, public_url=PUBLIC_URL, strict=True, cases=cases)
    res = vlib.run_driver_parallel(binary, inp, key="cases", shards=min(8, vlib.NCPU), timeout=400)
    return {r["id"]: r for r in res}


def run(prop, tier, seed, replay=None):
    t0 = time.time()
    rep = Report(prop)
    binary = vlib.build_driver("didresolve")
    if replay:
        obj = json.load(open(replay))
        res = execute(binary, obj["input"]["cases"], obj["input"].get("seed", seed))
        for case in obj["input"]["cases"]:
            r = res.get(case["id"])
            print(json.dumps(r)[:3000])
            if r is None:
                raise Inconclusive("replayed case produced no result")
            viol, drift, notes = judge(case, obj.get("pred"), r)
            for sig, detail in viol:
                print("  -> %s  %s" % (json.dumps(sig, sort_keys=True), detail))
                rep.violation(sig, obj)
        return rep.finish()

    quick = tier == "quick"
    rnd = random.Random(seed)
    # 1. the prescriptive design satisfies the property on the complete product
    m = vlib.tlc("MCDidResolve", "DidResolve.prescriptive.cfg", workers=min(8, vlib.NCPU), timeout=600, coverage=not quick)
    if m.error or m.violation:
        raise Inconclusive("prescriptive model: %s %s\n%s" % (m.violation, m.error, m.raw[-2000:]))
    models = [dict(cfg="DidResolve.prescriptive.cfg", states=m.distinct, transitions=m.generated, wall_s=round(m.wall, 1))]
    if not quick:
        for a in ("Boot1", "Boot2", "Route", "Local", "Parse", "Fetch", "Follow", "Check"):
            if not m.coverage.get(a):
                raise Inconclusive("vacuity: action %s never fired (%s)" % (a, m.coverage))
        fz = vlib.tlc("MCDidResolve", "DidResolve.witnessFrozenPolicy.cfg", workers=2, timeout=300)
        if fz.violation != "FetchOnlyFromEncodedOrigin":
            raise Inconclusive("the model does not distinguish when the resolver is constructed (%s %s)" % (fz.violation, fz.error))
        # the model distinguishes the deviations of the new dimensions (each must violate exactly the named invariant)
        for cfg, inv, what in (("witnessClockOrder", "DeactivatedNeedsOptIn", "'current version' by timestamp instead of by version number"),
                               ("witnessDotCleaned", "ResolvedOnlyFromEncodedLocation", "a resolver that cleans dot segments"),
                               ("witnessFutureHidden", "DeactivatedNeedsOptIn", "versions hidden by the now + 1h window")):
            dv = vlib.tlc("MCDidResolve", "DidResolve.%s.cfg" % cfg, workers=2, timeout=300)
            if dv.violation != inv:
                raise Inconclusive("the model does not distinguish %s (%s %s)" % (what, dv.violation, dv.error))
        for wname in ("Doc", "Redirect", "Deactivated", "SteppedBack", "Decoy"):
            wv = vlib.tlc("MCDidResolve", "DidResolve.witness%s.cfg" % wname, workers=2, timeout=300)
            if wv.violation != "Witness" + wname:
                raise Inconclusive("vacuity witness %s not reachable (%s %s)" % (wname, wv.violation, wv.error))
    # 2. the descriptive model enumerates every case with its prediction
    g = vlib.tlc("MCDidResolve", "DidResolve.gen.cfg", workers=min(8, vlib.NCPU), timeout=600)
    if g.error or g.violation:
        raise Inconclusive("descriptive model: %s %s\n%s" % (g.violation, g.error, g.raw[-2000:]))
    preds = sorted(g.printed, key=lambda p: json.dumps(p, sort_keys=True))
    if len(preds) < 1000:
        raise Inconclusive("TLC emitted only %d cases" % len(preds))
    # predictions of the prescriptive design for the same cases: a tree in which a deviation has been repaired matches these
    presc = {json.dumps(p["case"], sort_keys=True): p for p in m.printed}
    if len(presc) != len(preds):
        raise Inconclusive("prescriptive and descriptive model enumerate different case sets (%d / %d)" % (len(presc), len(preds)))
    models.append(dict(cfg="DidResolve.gen.cfg", states=g.distinct, transitions=g.generated, cases=len(preds), wall_s=round(g.wall, 1)))

    # 3. concretise + execute
    k = 2 if quick else 3
    cases, meta = [], {}
    for pi, pred in enumerate(preds):
        for cc in concretise(pred, rnd, k):
            cc["id"] = "c%06d" % len(cases)
            cases.append(cc)
            meta[cc["id"]] = pi
    rts = roundtrip_cases(rnd, 2 if quick else None)
    rt_pred = {}
    for p in preds:
        pc_ = p["case"]
        if pc_["m"] == "web" and pc_["local"] == "none":
            rt_pred.setdefault((pc_["host"], pc_["path"]), p)
    for cc in rts:
        cc["id"] = "r%06d" % len(cases)
        if cc["kind"] == "rturl":
            cc["url"] = rt_url(cc)
        cases.append(cc)
        meta[cc["id"]] = None
    results = execute(binary, cases, seed)
    if len(results) != len(cases):
        raise Inconclusive("driver returned %d results for %d cases" % (len(results), len(cases)))

    # 4. judge
    ndrift, nnotes, nviol_cases, repaired = 0, 0, 0, 0
    distinct, abstract_seen = set(), set()
    drift_samples, note_samples, samples = [], {}, []
    for cc in cases:
        r = results[cc["id"]]
        pi = meta[cc["id"]]
        pred = preds[pi] if pi is not None else None
        if pred is None and cc["kind"] == "rt":
            pred = rt_pred.get((cc["x"]["hc"], cc["x"]["pc"]))
        viol, drift, notes = judge(cc, pred, r)
        if drift and pred is not None:
            # not what the descriptive model says: does the tree behave like the repaired design on this case?
            _, drift_p, _ = judge(cc, presc[json.dumps(pred["case"], sort_keys=True)], r)
            if not drift_p:
                repaired += 1
                drift = []
        if r.get("parsed"):
            distinct.add(json.dumps([cc["kind"], cc.get("order"), cc.get("did") or r.get("did", "")[:12], cc.get("url"), cc.get("server"), cc.get("local"), cc.get("meta"),
                                     cc.get("keytype"), cc.get("defect")], sort_keys=True))
            if pi is not None:
                abstract_seen.add(pi)
        for sig, detail in viol:
            rep.violation(sig, dict(property=prop, signature=sig, detail=detail, pred=pred,
                                    input=dict(seed=seed, public_url=PUBLIC_URL, strict=True, cases=[cc]), observed=r))
        nviol_cases += 1 if viol else 0
        ndrift += len(drift)
        drift_samples += drift[:1] if len(drift_samples) < 12 else []
        for key, n in notes:
            nnotes += 1
            note_samples.setdefault(key, n)
        if len(samples) < 6 and cc["kind"] in ("web", "managed", "key") and (len(samples) % 2 == 0) == bool(r.get("resolved")):
            samples.append(dict(case=cc, abstract=pred["case"] if pred else None, predicted=pred and pred["outcome"],
                                observed=dict(resolved=r["resolved"], doc_id=r["doc_id"], err=r["err"][:160], dials=r["dials"], requests=r["requests"])))
    for d in drift_samples[:8]:
        rep.notes.append("DRIFT: " + d)
    for n in list(note_samples.values())[:6]:
        rep.notes.append("NOTE: " + n)
    if repaired:
        rep.notes.append("NOTE: %d executed cases behave like the PRESCRIPTIVE design rather than the descriptive one: a deviation constant of "
                         "spec/cfg/DidResolve.gen.cfg can be switched to TRUE (and its known_findings entry closed)" % repaired)
    if ndrift > max(5, len(cases) // 50) and not rep.violations:
        rep.inconclusive.append("%d of %d executed cases deviate from the descriptive model's prediction (spec/code drift)" % (ndrift, len(cases)))

    cov = dict(evaluations=len(cases), distinct_nontrivial=len(distinct), exhaustive=True,
               abstract_cases_enumerated_by_tlc=len(preds), abstract_cases_reaching_the_resolver=len(abstract_seen),
               roundtrip_cases=len(rts), cases_with_property_violation=nviol_cases, known_findings=sorted(rep.known),
               drift=ndrift, notes=nnotes, cases_matching_only_the_prescriptive_design=repaired, models=models, samples=samples,
               rule="TLC enumerates the complete product of abstract classes of DidResolve.tla (24 host classes x 10 path classes x 14 server answers for "
                    "remote did:web; 4 path classes with a canonical form x 24 host classes on a 'decoy' site (404 at the encoded location, the document only where a decoded / "
                    "dot-cleaned / case-folded path leads); managed did:web: 14 answers x 2 plain histories x 3 metadata options, plus every weak order of the version timestamps "
                    "of histories of up to 3 versions (same second, clock stepped back) and versions written ahead of the resolver's clock, x 3 metadata options; did:jwk / did:key x validity x metadata; every case x the moment the resolver and its HTTP client are "
                    "constructed: before strict mode is switched on - the production order of cmd.CreateSystem - or after) and "
                    "proves the invariants for the prescriptive design; every enumerated case is concretised (%s concrete variant(s) per class dimension, "
                    "seeded) and executed on the real vdr resolver wiring behind a recording dialer and local TLS/plain servers; the round-trip law is "
                    "run on every host x path class pair in both directions. exhaustive=true refers to the abstract product, not to the concrete "
                    "identifier space. distinct_nontrivial = distinct concrete (identifier, server script, local history, metadata) inputs that "
                    "did.ParseDID accepted, i.e. that reached the resolvers." % ("2" if quick else "3"))
    vlib.write_evidence(prop, tier, seed, "exploration", cov, time.time() - t0, len(rep.violations),
                        ["the expected origin of each concrete identifier is given by construction in the class tables of tools/props/didresolve.py",
                         "every dial of the HTTP transport is rerouted to local test servers that present a valid certificate for ANY requested name: "
                         "DNS and the web PKI are out of scope, only the resolver's own checks are exercised",
                         "the HTTP client runs with client.StrictMode = true at resolution time (strict mode is the default); two real vdr.Module instances exist per driver "
                         "process, one configured before and one after the flag is switched on; keep-alives disabled so every request dials",
                         "round-trip equality is taken modulo the case of hex digits in percent-escapes",
                         "the wall clock has no seam in vdr/didsubject (time.Now()): local histories are written by the real manager (Create, CreateService, Deactivate) and the clock "
                         "readings of the history are then written into did_document_version.updated_at; ResolveMetadata.ResolveTime (historical resolution) is not exercised",
                         "the path an identifier encodes is taken literally, '.' and '..' segments included: a resolver that cleans them is reported, one that refuses such identifiers is not",
                         "did:x509 and did:nuts resolution are not exercised (did:nuts never uses HTTP; managed DIDs are did:web on sqlite)",
                         "a redirect to another path on the same host over https is not counted as a foreign origin"])
    return rep.finish()
