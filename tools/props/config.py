"""C20: Config.tla <-> core/{server_config,url,config}.go, every engine's Configure and the assembled cmd.CreateSystem.

TLC enumerates the complete product of configuration vectors (and of (vector x action) pairs of a running node), proves the
documented promise for the transcribed guards and predicts the verdict of every vector; this module concretises every vector
(concrete URLs per class, the channel - flag / environment / yaml - through which each option is supplied, seeded) and runs it
 (a) on each real engine's Configure with its full local option product and (b) on the assembled system loaded through the real
flag set, environment and config file.  The verdict is computed here from the property statement on the observed behaviour."""
import itertools, json, os, random, time
from .. import vlib
from ..vlib import Report, Inconclusive

PROPS = ["C20"]

# ---------------------------------------------------------------------------------------------- concrete values per class
URLS = {
    "https-name":    ["https://node.nuts-verif.nl", "https://nuts-verif.nl:8443", "https://node.nuts-verif.nl/nuts", "HTTPS://Node.Nuts-Verif.NL",
                      "https://nuts"],
    "http-name":     ["http://node.nuts-verif.nl", "http://node.nuts-verif.nl:8080", "HTTP://node.nuts-verif.nl", "http://nuts"],
    "https-ip":      ["https://192.168.1.1", "https://127.0.0.1:8443", "https://10.0.0.1/nuts", "https://169.254.169.254"],
    "http-ip":       ["http://127.0.0.1:8080", "http://192.168.1.1", "http://10.0.0.1:1323"],
    "reserved-tld":  ["https://localhost", "https://nuts.local", "https://node.test", "https://node.example", "https://nuts.invalid", "https://nuts.corp",
                      "https://nuts.lan", "https://nuts.home", "https://nuts.host", "https://nuts.localdomain", "https://LOCALHOST:8443", "https://localhost."],
    "reserved-addr": ["https://example.com", "https://www.example.org", "https://a.b.example.net:8443", "https://EXAMPLE.com"],
    "empty":         [""],
}
# public URLs the statement does not classify; executed on core-url only, reported as NOTE
URL_NOTES = {"https://2130706433": "numeric host (127.0.0.1 to inet_aton) is not recognised as an IP address by ParsePublicURL",
             "https://0x7f000001": "hexadecimal host is not recognised as an IP address by ParsePublicURL",
             "https://[::1]": "IPv6 literal public URL", "https://[2001:db8::1]:8443": "IPv6 literal public URL"}
OUT_URLS = {
    "https-name":          ["https://as.nuts-verif.nl/oauth", "https://as.nuts-verif.nl:8443/x"],
    "http-name":           ["http://as.nuts-verif.nl/oauth", "HTTP://as.nuts-verif.nl/x", "http://as.nuts-verif.nl:8080/x"],
    "https-ip":            ["https://10.0.0.1/x", "https://192.168.1.1:8443/x"],
    "http-ip":             ["http://127.0.0.1:8080/x", "http://169.254.169.254/latest/meta-data"],
    "https-reserved":      ["https://localhost/x", "https://as.example.com/x", "https://as.local/x"],
    "https-redirect-http": ["https://as.nuts-verif.nl/redir302", "https://as.nuts-verif.nl/redir307"],
}
EMBEDDED_CONTEXTS = ["https://nuts.nl/credentials/v1", "https://www.w3.org/2018/credentials/v1"]
# JSON-LD context URLs that are NEAR an entry of the allow-list without being one: relation -> [(template over the entry, what the template
# needs of the entry)].  The driver takes the entry from the configuration of the real engine (jsonld.DefaultContextConfig + the operator's
# additions), {M} is a label unique to the action.  Only forms are listed that are a DIFFERENT URL than the entry under every reading
# (no fragment / trailing-slash / letter-case variants: a loader that normalises before comparing would be right to accept those).
NEAR_TEMPLATES = {
    "ext-path":     [("{ENTRY}/{M}", ""), ("{ENTRY}/ctx/{M}.jsonld", "")],
    "ext-name":     [("{ENTRY}-draft-{M}", "path"), ("{ENTRY}{M}", "path"), ("{ENTRY}.{M}.jsonld", "path"), ("{ENTRY}{M}.io/ctx/v1", "pathless")],
    "ext-query":    [("{ENTRY}?v={M}", "")],
    "ext-host":     [("{ENTRY}.{M}.ctx-mirror.net/ctx/v13", "pathless"), ("{ENTRY}.{M}.nuts-verif.nl", "pathless")],
    "ext-userinfo": [("{ENTRY}@{M}.ctx-mirror.net/ctx/v13", "pathless"), ("{ENTRY}:x@{M}.ctx-mirror.net/ctx/v13", "pathless")],
    "truncated":    [("{PARENT}", "path"), ("{PARENT}/", "path"), ("{CHOP}", "path")],
    "same-host":    [("{ORIGIN}/ctx/{M}.jsonld", "path")],     # (below a path-less entry this would be ext-path)
    "scheme-http":  [("http://{ENTRYNOSCHEME}", "https")],
    "embeds":       [("https://{M}.ctx-mirror.net/ctx/{ENTRY}", ""), ("https://{M}.ctx-mirror.net/ctx?u={ENTRY}", "")],
}
# the operator's additions to jsonld.contexts.remoteallowlist in the jsonld layer (the assembled system has its own: see the driver)
OPERATOR_ENTRIES = ["https://contexts.nuts-verif.nl", "https://ctx.nuts-verif.nl/care/2024/v1", "http://{PLAIN}/ctx/an-allow-listed-context.jsonld"]
INSECURE_URL = {"http-name", "https-ip", "http-ip", "reserved-tld", "reserved-addr"}
UNUSABLE_URL = {"empty"}
OPTION_KEYS = ["strictmode", "url", "tls.certfile", "tls.certkeyfile", "tls.truststorefile", "tls.offload", "tls.certheader", "crypto.storage",
               "storage.sql.connection", "auth.contractvalidators", "auth.irma.schememanager", "didmethods", "jsonld.contexts.remoteallowlist"]
DIMS = ["strict", "url", "tls", "crypto", "sql", "dummy", "irma", "did"]


def insecure_options(v):
    """The statement's list, evaluated on the abstract vector (independent of the spec's InsecureSetting; cross-checked)."""
    out = []
    if v["url"] in INSECURE_URL:
        out.append("url=" + v["url"])
    if v["tls"] == "off" and "nuts" in v["did"].split(","):
        out.append("tls=off")
    if v["crypto"] == "unset":
        out.append("crypto.storage=unset")
    if v["sql"] == "unset":
        out.append("storage.sql.connection=unset")
    if v["irma"] != "pbdf":
        out.append("auth.irma.schememanager=" + v["irma"])
    return out


# ---------------------------------------------------------------------------------------------- concretisation

def concrete_vec(v, rnd, url=None):
    cv = dict(v)
    cv["url_class"] = v["url"]
    cv["url"] = url if url is not None else rnd.choice(URLS[v["url"]])
    chan = {k: rnd.choice(["flag", "env", "yaml"]) for k in OPTION_KEYS}
    if v.get("moved", "none") != "none":
        chan[v["moved"]] = rnd.choice(["env", "yaml"])      # there is no flag of that name any more
    cv["chan"] = chan
    cv["strict_implicit"] = bool(v["strict"]) and rnd.random() < 0.34
    return cv


def near_acts(pact, variants, operator=None):
    """Concretisations of one TLC-enumerated near-miss action: `variants` = [(template index, entry index)]."""
    a = pact["act"]
    out = []
    for ti, ei in variants:
        tmpl, need = NEAR_TEMPLATES[a["arg"]][ti % len(NEAR_TEMPLATES[a["arg"]])]
        if a["anchor"] == "mapped-only" and "pathless" in need:
            continue      # every localmapping-only key has a path (spec: NearExpressible)
        act = dict(kind="jsonld", arg=a["arg"], entry=a["entry"], anchor=a["anchor"], url=tmpl, need=need, variant=ei)
        if operator and a["entry"] == "with-url":
            act["operator"] = operator
        out.append(act)
    return out


def system_acts(v, rnd, cid, near=()):
    acts = [dict(kind="dummy-sign", arg="none", entry="none", url=""), dict(kind="dummy-verify", arg="none", entry="none", url=""),
            dict(kind="jsonld", arg="unlisted", entry="with-url", url="http://{PLAIN}/ctx/unlisted-%s.jsonld" % cid),
            dict(kind="jsonld", arg="listed", entry="with-url", url=""),
            dict(kind="jsonld", arg="embedded", entry="with-url", url=rnd.choice(EMBEDDED_CONTEXTS))]
    pairs = [("strict-client", "http-name"), ("strict-client", "https-redirect-http"), ("strict-client", "https-name")]
    # every client with a construction time of its own is asked for a plain-HTTP URL (did:web cannot express one: redirect instead)
    pairs += [(e, "http-name") for e in LONG_LIVED + EARLY if e != "vdr-didweb"] + [("vdr-didweb", "https-redirect-http"), ("vdr-didweb", "https-name")]
    pairs += rnd.sample([(e, u) for e in OUT_ENTRIES + LONG_LIVED + EARLY for u in OUT_URLS if expressible(e, u)], 8)
    for e, u in pairs:
        if e == "vdr-didweb" and "web" not in v["did"].split(","):
            continue      # no did:web resolver is registered on such a node
        acts.append(dict(kind="outbound", arg=u, entry=e, url=rnd.choice(OUT_URLS[u])))
    # the allow-list of the assembled system is the "with-url" one; a seeded handful of the near-miss context classes per node
    cand = [p for p in near if p["act"]["entry"] == "with-url"]
    for p in rnd.sample(cand, min(5, len(cand))):
        acts += near_acts(p, [(rnd.randrange(6), rnd.randrange(6))])[:1]
    return acts


# entry points whose request goes through a client that is constructed at a particular moment of the node's life
LONG_LIVED = ["vdr-didweb", "vcr-statuslist", "vcr-openid4vci-wallet", "vcr-openid4vci-issuer", "discovery-get"]   # built in an engine's Configure
EARLY = ["early-new", "early-cache", "early-tls"]                                                                    # built before anything is configured
DIDWEB_URLS = ("https-name", "https-reserved", "https-redirect-http")     # what a did:web identifier can express
TRUST_DEPENDENT = ("rfc003", "vcr-openid4vci-wallet", "vcr-openid4vci-issuer")   # TLS trust of these clients comes from tls.truststorefile


def expressible(e, u):
    return e != "vdr-didweb" or u in DIDWEB_URLS


OUT_ENTRIES = ["strict-client", "rfc003", "iam-clientmetadata", "iam-presentationdefinition", "iam-asmetadata", "iam-openidconfig", "iam-issuermetadata",
               "iam-requestobject-get", "iam-requestobject-post", "iam-posterror", "iam-postresponse", "iam-accesstoken", "iam-credentials"]


def pairwise_cover(vectors, rnd, strength=2):
    """Greedy t-wise cover of the engine-option product by vectors TLC enumerated."""
    pool = list(vectors)
    rnd.shuffle(pool)
    need = set()
    for v in pool:
        for combo in itertools.combinations(DIMS, strength):
            need.add(tuple((d, v[d]) for d in combo))
    chosen = []
    while need:
        best, gain = None, -1
        for v in pool[:400] if len(pool) > 400 else pool:
            g = sum(1 for combo in itertools.combinations(DIMS, strength) if tuple((d, v[d]) for d in combo) in need)
            if g > gain:
                best, gain = v, g
        if gain <= 0:
            rnd.shuffle(pool)
            continue
        chosen.append(best)
        pool.remove(best)
        for combo in itertools.combinations(DIMS, strength):
            need.discard(tuple((d, best[d]) for d in combo))
    return chosen


def vkey(v):
    return json.dumps({k: v[k] for k in DIMS + ["moved", "secret", "via"]}, sort_keys=True)


# ---------------------------------------------------------------------------------------------- oracle (property statement)

def judge_start(case, pred, r):
    """Start-up of one vector on layer `case['layer']`; `case['x']` holds the abstract vector restricted to the options the layer reads."""
    viol, drift, notes = [], [], []
    v, layer = case["x"], case["layer"]
    if r.get("error"):
        return viol, ["driver problem (%s %s): %s" % (layer, case["id"], r["error"][:300])], notes
    acc = r["accepted"]
    ins = insecure_options(v)
    moved = v.get("moved", "none") != "none"
    secret_flag = v.get("secret", "none") != "none" and v.get("via") == "flag"
    unusable = v["url"] in UNUSABLE_URL
    cv = case["vec"]
    where = "%s strict=%s %s" % (layer, v["strict"], json.dumps({k: cv.get(k) for k in ("url", "tls", "crypto", "sql", "irma", "did", "dummy", "moved", "secret", "via") if k in cv}))
    if moved and acc:
        viol.append((dict(kind="moved-key-accepted", key=v["moved"], strict=v["strict"]), where))
    if secret_flag and acc:
        viol.append((dict(kind="secret-on-cmdline-accepted", flag=v["secret"], strict=v["strict"]), where))
    if v["strict"] and ins and acc:
        opt = ins[0] if len(ins) == 1 else "multiple"
        viol.append((dict(kind="insecure-accepted", option=opt, layer=layer), where + " insecure: %s" % ins))
    if v["strict"] and v["tls"] == "off" and acc and r.get("grpc") == "listening":
        viol.append((dict(kind="insecure-accepted", option="network-without-tls", layer=layer), where + ": gRPC network is listening without TLS"))
    if not v["strict"] and not unusable and not moved and not secret_flag and not acc and r["phase"] in ("flags", "load", "configure"):
        viol.append((dict(kind="refused-nonstrict", by=r.get("refused_by") or r.get("phase"), option=(ins[0] if len(ins) == 1 else "multiple" if ins else "none"), layer=layer,
                          form=v.get("form", "")),
                     where + ": %s" % r["err"][:200]))
    if acc and layer == "system" and r.get("client_strict") is not None and r["client_strict"] != bool(v["strict"]):
        # internal state, not behaviour: the outbound actions decide; this is only a hint
        drift.append(where + ": http/client.StrictMode=%s after Configure" % r["client_strict"])
    # prediction of the model: drift
    if pred is not None:
        if v.get("form") == "ipv6" and not v["strict"]:
            pass   # F20: reported by the oracle above
        elif bool(pred["accepted"]) != bool(acc):
            drift.append("%s: model predicts %s, code %s (%s)" % (where, "accepted" if pred["accepted"] else "refused by %s (%s)" % (pred["by"], pred["why"]),
                                                               "accepted" if acc else "refused", r["err"][:160]))
        elif not acc and layer == "system" and pred["by"] != "load" and r.get("refused_by") and pred["by"] != r["refused_by"]:
            drift.append("%s: model predicts refusal by %s, code refused by %s (%s)" % (where, pred["by"], r["refused_by"], r["err"][:120]))
        elif not acc and layer == "system" and pred["by"] == "load" and r["phase"] not in ("load", "flags"):
            drift.append("%s: model predicts refusal while loading, code refused in phase %s" % (where, r["phase"]))
        if acc and layer in ("system", "network") and r.get("grpc"):
            want = "listening" if "nuts" in v["did"].split(",") else "closed"
            if r["grpc"] != want:
                drift.append("%s: gRPC %s, expected %s" % (where, r["grpc"], want))
    return viol, drift, notes


def judge_act(case, a, pact):
    """One action on a running node; pact = the model's prediction for (strict, dummy, action)."""
    viol, drift, notes = [], [], []
    v = case["x"]
    strict, kind = bool(v["strict"]), a["kind"]
    performed = a["verdict"] == "performed"
    where = "%s strict=%s dummy=%s %s %s/%s %s" % (case["layer"], strict, v.get("dummy"), kind, a["arg"], a["entry"], a["url"])
    if a["verdict"] == "panic":
        notes.append(("panic", where + ": " + a["err"][:200]))
        return viol, drift, notes
    if kind in ("dummy-sign", "dummy-verify"):
        if strict and performed:
            viol.append((dict(kind="insecure-accepted", option="auth.contractvalidators=dummy", action=kind), where))
        if not strict and v.get("dummy") and not performed:
            viol.append((dict(kind="refused-nonstrict", option="auth.contractvalidators=dummy", action=kind), where + ": " + a["err"][:160]))
    elif kind == "jsonld":
        fetched = any(q["path"].startswith("/ctx/") for q in a["requests"])
        if a["arg"] in NEAR_TEMPLATES:
            # the URL is no entry of the allow-list (the driver checked that against the engine's configuration): an unlisted remote context
            if a["verdict"] == "error":
                drift.append("driver problem (%s): %s" % (where, a["err"][:200]))
            elif strict and (performed or a["requests"] or a["dials"]):
                viol.append((dict(kind="insecure-accepted", option="jsonld.unlisted-remote-context", near=a["arg"]),
                             where + " (near allow-list entry %s, %s): %s, dials %s, %d request(s) received" % (
                                 a.get("near_to"), a.get("anchor"), "loaded" if performed else "refused after fetching", a["dials"], len(a["requests"]))))
            elif not strict and not performed:
                viol.append((dict(kind="refused-nonstrict", option="jsonld.unlisted-remote-context", near=a["arg"]), where + ": " + a["err"][:160]))
        if a["arg"] == "unlisted":
            if strict and (performed or fetched):
                viol.append((dict(kind="insecure-accepted", option="jsonld.unlisted-remote-context"), where))
            if not strict and not performed:
                viol.append((dict(kind="refused-nonstrict", option="jsonld.unlisted-remote-context"), where + ": " + a["err"][:160]))
        if a["arg"] == "listed" and a["entry"] == "with-url" and strict and performed and a["url"].startswith("http://"):
            notes.append(("jsonld-http", "an allow-listed http:// JSON-LD context is fetched over plain HTTP in strict mode (ld default loader, not the StrictHTTPClient): " + a["url"]))
    elif kind == "outbound":
        plain = a["plain"] or any(d.endswith(":80") or d.endswith(":8080") for d in a["dials"])
        if strict and plain:
            if a["arg"] == "https-redirect-http":
                viol.append((dict(kind="insecure-accepted", option="outbound.redirect-http", entry=a["entry"]), where + ": dials %s" % a["dials"]))
            else:
                viol.append((dict(kind="insecure-accepted", option="outbound.http", entry=a["entry"]), where + ": dials %s" % a["dials"]))
        if not strict and not performed and a["arg"] in ("http-name", "http-ip"):
            viol.append((dict(kind="refused-nonstrict", option="outbound.http", entry=a["entry"], url=a["arg"]), where + ": " + a["err"][:160]))
    if kind == "outbound" and strict and performed and case["layer"] in ("system", "auth") and a["entry"].startswith("iam-") \
            and a["entry"] != "iam-credentials" and a["arg"] in ("https-ip", "https-reserved"):
        notes.append(("iam-nonstrict", "running strict node: IAM client entry %s sends a request to %s - Auth.strictMode is never assigned, so Auth.IAMClient() always "
                      "builds the client with strictMode=false and core.ParsePublicURL lets IP / reserved hosts pass (plain http is still stopped by StrictHTTPClient)"
                      % (a["entry"], a["url"])))
    if pact is not None:
        want = pact["standalone"] if case["layer"] == "outbound" else pact["verdict"]
        if kind == "outbound" and a["entry"] in TRUST_DEPENDENT and case["layer"] == "system" and a["arg"] == "https-redirect-http":
            pass   # TLS trust of these clients comes from tls.truststorefile: whether the redirecting test server is trusted depends on the vector
        elif want != a["verdict"]:
            drift.append("%s: model predicts %s, code %s (%s)" % (where, want, a["verdict"], a["err"][:120]))
        elif kind == "outbound" and bool(pact["plain"]) != bool(a["plain"] or any(d.endswith(":80") or d.endswith(":8080") for d in a["dials"])):
            drift.append("%s: model predicts plain-http=%s, code dials %s" % (where, pact["plain"], a["dials"]))
    return viol, drift, notes


def akey(strict, dummy, a):
    return (bool(strict), bool(dummy), a["kind"], a["arg"], a["entry"], a.get("anchor") or "none")


# ---------------------------------------------------------------------------------------------- run

def execute(binary, cases, seed):
    # heavy (assembled system) and light cases interleave so that the shards are balanced
    inp = dict(seed=seed, cases=cases)
    res = vlib.run_driver_parallel(binary, inp, key="cases", shards=min(8, vlib.NCPU), timeout=900)
    return {r["id"]: r for r in res}


def judge_case(case, preds, pacts, r):
    viol, drift, notes = [], [], []
    pred = preds.get(vkey(case["x"])) if case["layer"] == "system" else case.get("pred")
    if case.get("start", True):
        a, b, c = judge_start(case, pred, r)
        viol += a; drift += b; notes += c
    for a in r.get("acts", []):
        pa = pacts.get(akey(case["x"]["strict"], case["x"].get("dummy", False), a))
        if case["layer"] == "system" and a["kind"] == "jsonld" and a["arg"] == "listed":
            pa = pacts.get(akey(case["x"]["strict"], case["x"].get("dummy", False), dict(a, entry="with-url")))
        x, y, z = judge_act(case, a, pa)
        viol += x; drift += y; notes += z
    return viol, drift, notes


def run(prop, tier, seed, replay=None):
    t0 = time.time()
    rep = Report(prop)
    binary = vlib.build_driver("config")
    quick = tier == "quick"
    rnd = random.Random(seed)

    # 1. the promise holds for the transcribed guards; 2. the descriptive model enumerates every vector and action
    m = vlib.tlc("MCConfig", "Config.prescriptive.cfg", workers=min(8, vlib.NCPU), timeout=600, coverage=not quick)
    if m.error or m.violation:
        raise Inconclusive("prescriptive model: %s %s\n%s" % (m.violation, m.error, m.raw[-2000:]))
    models = [dict(cfg="Config.prescriptive.cfg", states=m.distinct, transitions=m.generated, wall_s=round(m.wall, 1))]
    if not quick:
        full = vlib.tlc("MCConfig", "Config.full.cfg", workers=min(8, vlib.NCPU), timeout=900)
        if full.error or full.violation:
            raise Inconclusive("full model (actions on every running vector): %s %s" % (full.violation, full.error))
        models.append(dict(cfg="Config.full.cfg", states=full.distinct, transitions=full.generated, wall_s=round(full.wall, 1)))
        snapw = vlib.tlc("MCConfig", "Config.witnessSnapshotFlag.cfg", workers=2, timeout=300)
        if snapw.violation != "NoPlainHttpInStrict":
            raise Inconclusive("the model does not distinguish when a client is constructed (%s %s)" % (snapw.violation, snapw.error))
        for wcfg in ("Config.witnessPrefixAllowList.cfg", "Config.witnessHostAllowList.cfg"):
            aw = vlib.tlc("MCConfig", wcfg, workers=2, timeout=300)
            if aw.violation != "NoUnlistedContextInStrict":
                raise Inconclusive("the model does not distinguish how a context URL relates to the allow-list entries (%s: %s %s)" % (wcfg, aw.violation, aw.error))
        for a in ("Load", "Configure", "Start", "Act"):
            if not m.coverage.get(a):
                raise Inconclusive("vacuity: action %s never fired (%s)" % (a, m.coverage))
        for wname in ("StrictRunning", "RefusedByAuth", "NoNutsTlsOff"):
            wv = vlib.tlc("MCConfig", "Config.witness%s.cfg" % wname, workers=2, timeout=300)
            if wv.violation != "Witness" + wname:
                raise Inconclusive("vacuity witness %s not reachable (%s %s)" % (wname, wv.violation, wv.error))
    g = vlib.tlc("MCConfig", "Config.gen.cfg", workers=min(8, vlib.NCPU), timeout=600)
    if g.error or g.violation:
        raise Inconclusive("descriptive model: %s %s\n%s" % (g.violation, g.error, g.raw[-2000:]))
    starts = sorted([p for p in g.printed if p["t"] == "start"], key=lambda p: json.dumps(p, sort_keys=True))
    acts = sorted([p for p in g.printed if p["t"] == "act"], key=lambda p: json.dumps(p, sort_keys=True))
    near = [p for p in acts if p["act"]["kind"] == "jsonld" and p["act"]["anchor"] != "none"]
    if {p["act"]["arg"] for p in near} != set(NEAR_TEMPLATES):
        raise Inconclusive("spec and concretiser disagree on the near-miss context classes: %s" % sorted({p["act"]["arg"] for p in near}))
    if len(starts) < 2000 or len(acts) < 300:
        raise Inconclusive("TLC emitted only %d vectors / %d actions" % (len(starts), len(acts)))
    models.append(dict(cfg="Config.gen.cfg", states=g.distinct, transitions=g.generated, vectors=len(starts), actions=len(acts), wall_s=round(g.wall, 1)))
    preds = {vkey(p["v"]): p for p in starts}
    pacts = {akey(p["strict"], p["dummy"], p["act"]): p for p in acts}
    # predictions of the prescriptive design: a tree in which a deviation has been repaired matches these
    pacts_p = {akey(p["strict"], p["dummy"], p["act"]): p for p in m.printed if p["t"] == "act"}
    preds_p = {vkey(p["v"]): p for p in m.printed if p["t"] == "start"}
    if len(pacts_p) != len(pacts) or len(preds_p) != len(preds):
        raise Inconclusive("prescriptive and descriptive model enumerate different case sets")
    for p in starts:   # the statement's notion of "insecure" as transcribed in the spec and as coded here must agree
        if bool(insecure_options(p["v"])) != bool(p["insecure"]):
            raise Inconclusive("spec and oracle disagree on InsecureSetting for %s" % p["v"])

    if replay:
        obj = json.load(open(replay))
        res = execute(binary, obj["input"]["cases"], obj["input"].get("seed", seed))
        for case in obj["input"]["cases"]:
            r = res.get(case["id"])
            if r is None:
                raise Inconclusive("replayed case produced no result")
            print(json.dumps({k: v for k, v in r.items() if k not in ("env", "yaml")})[:3000])
            viol, drift, notes = judge_case(case, preds, pacts, r)
            for sig, detail in viol:
                print("  -> %s  %s" % (json.dumps(sig, sort_keys=True), detail))
                rep.violation(sig, obj)
        return rep.finish()

    cases = []
    def add(layer, x, vec, acts_=None, pred=None, start=True):
        c = dict(id="%s%05d" % (layer[:2], len(cases)), layer=layer, x=x, vec=vec, acts=acts_ or [], pred=pred, start=start)
        cases.append(c)
        return c

    # 3a. every engine's full local product (both tiers)
    base = dict(strict=True, url="https-name", tls="on", crypto="fs", sql="sqlite", dummy=False, irma="pbdf", did="web,nuts", moved="none", secret="none", via="none")
    def engine_pred(x, engine_guard):
        return dict(accepted=not engine_guard, by="", why="")
    for strict in (True, False):
        for cls, urls in sorted(URLS.items()):
            for u in urls:
                x = dict(base, strict=strict, url=cls)
                refused = cls in UNUSABLE_URL or (strict and cls in INSECURE_URL)
                add("core-url", x, dict(strict=strict, url=u), pred=dict(accepted=not refused, by="core", why="public-url"))
        for u in sorted(URL_NOTES):
            add("core-url", dict(base, strict=strict, url="https-name", note=u), dict(strict=strict, url=u), pred=None, start=False)
        for sql in ("unset", "sqlite"):
            x = dict(base, strict=strict, sql=sql)
            add("storage", x, dict(strict=strict, sql=sql), pred=dict(accepted=not (strict and sql == "unset"), by="storage", why="implicit-sqlite"))
        for cr in ("unset", "fs"):
            x = dict(base, strict=strict, crypto=cr)
            add("crypto", x, dict(strict=strict, crypto=cr), pred=dict(accepted=not (strict and cr == "unset"), by="crypto", why="implicit-keystore"))
        for tls in ("on", "off", "offload"):
            for did in ("web,nuts", "web", "nuts"):
                x = dict(base, strict=strict, tls=tls, did=did)
                refused = strict and tls == "off" and "nuts" in did
                add("network", x, dict(strict=strict, tls=tls, did=did, url=URLS["https-name"][0]), pred=dict(accepted=not refused, by="network", why="tls-off"))
            for irma in ("pbdf", "irma-demo"):
                for dummy in (True, False):
                    for cls in sorted(URLS):
                        x = dict(base, strict=strict, tls=tls, irma=irma, dummy=dummy, url=cls)
                        refused = (strict and irma != "pbdf") or cls in UNUSABLE_URL or (strict and cls in INSECURE_URL)
                        # the auth engine reads url, irma, validators and the TLS files; "tls off" is no concern of this engine
                        xa = dict(x, did="web")
                        add("auth", xa, dict(strict=strict, tls=tls, irma=irma, dummy=dummy, url=rnd.choice(URLS[cls]), did="web"),
                            acts_=[dict(kind="dummy-sign", arg="none", entry="none", url=""), dict(kind="dummy-verify", arg="none", entry="none", url="")],
                            pred=dict(accepted=not refused, by="auth", why=""))
        for dummy in (False,):
            jacts = []
            for ctx in ("embedded", "listed", "unlisted"):
                for al in ("default", "with-url"):
                    for n in range(2):
                        u = rnd.choice(EMBEDDED_CONTEXTS) if ctx == "embedded" else "http://{PLAIN}/ctx/%s-%s-%d-%d.jsonld" % (ctx, al, int(strict), n)
                        jacts.append(dict(kind="jsonld", arg=ctx, entry=al, url=u))
            add("jsonld", dict(base, strict=strict, dummy=False), dict(strict=strict), acts_=jacts, pred=dict(accepted=True, by="", why=""))
            # every (relation, anchor, allow-list) case TLC enumerated, every template, two entries of the anchor's kind
            nacts_ = {}
            for p in near:
                if bool(p["strict"]) == strict and not p["dummy"]:
                    nacts_.setdefault(p["act"]["arg"], [])
                    nacts_[p["act"]["arg"]] += near_acts(p, [(ti, ei) for ti in range(len(NEAR_TEMPLATES[p["act"]["arg"]])) for ei in ((0, 1, 2, 3) if not quick else (rnd.randrange(4), rnd.randrange(4) + 4))],
                                        operator=OPERATOR_ENTRIES)
            for rel in sorted(nacts_):     # one case per relation: a replay holds one class
                add("jsonld", dict(base, strict=strict, dummy=False), dict(strict=strict), acts_=nacts_[rel], pred=dict(accepted=True, by="", why=""), start=False)
        for e in OUT_ENTRIES + EARLY:
            oacts = [dict(kind="outbound", arg=cls, entry=e, url=u) for cls in sorted(OUT_URLS) for u in OUT_URLS[cls]]
            add("outbound", dict(base, strict=strict, dummy=False), dict(strict=strict), acts_=oacts, pred=dict(accepted=True, by="", why=""), start=False)

    # 3b. the assembled system
    engine_vs = [p["v"] for p in starts if p["v"]["moved"] == "none" and p["v"]["secret"] == "none"]
    load_vs = [p["v"] for p in starts if not (p["v"]["moved"] == "none" and p["v"]["secret"] == "none")]
    if quick:
        sel = {vkey(v): v for v in pairwise_cover(engine_vs, rnd)}
        secure = dict(base)
        for strict in (True, False):           # every insecure option on its own, and the two corner configurations
            sel[vkey(dict(secure, strict=strict))] = dict(secure, strict=strict)
            for d, val in (("url", u) for u in sorted(INSECURE_URL | UNUSABLE_URL)):
                sel[vkey(dict(secure, strict=strict, url=val))] = dict(secure, strict=strict, url=val)
            for k, val in (("tls", "off"), ("crypto", "unset"), ("sql", "unset"), ("irma", "irma-demo"), ("dummy", True), ("did", "web"), ("did", "nuts")):
                sel[vkey(dict(secure, strict=strict, **{k: val}))] = dict(secure, strict=strict, **{k: val})
            sel[vkey(dict(secure, strict=strict, tls="off", did="web"))] = dict(secure, strict=strict, tls="off", did="web")
        extra = [v for v in engine_vs if vkey(v) not in sel]
        for v in rnd.sample(extra, min(150, len(extra))):
            sel[vkey(v)] = v
        for v in rnd.sample(load_vs, min(70, len(load_vs))):
            sel[vkey(v)] = v
        chosen = [sel[k] for k in sorted(sel)]
    else:
        chosen = engine_vs + load_vs
    # an IPv6 literal as public URL (kept out of the seeded URL tables so that its verdict does not depend on the seed)
    for strict in (True, False):
        v6 = dict(base, strict=strict, url="https-ip")
        c = add("system", v6, None)
        c["vec"] = concrete_vec(v6, rnd, url="https://[::1]:8443")
        c["x"] = dict(v6, form="ipv6")
    for v in chosen:
        if vkey(v) not in preds:
            raise Inconclusive("selected vector was not enumerated by TLC: %s" % v)
        for _ in range(1 if quick else 2):     # thorough: two concretisations (URL variant, channels, actions) of every vector
            c = add("system", v, None)
            c["vec"] = concrete_vec(v, rnd)
            c["acts"] = system_acts(v, rnd, c["id"], near=[p for p in near if bool(p["strict"]) == bool(v["strict"]) and bool(p["dummy"]) == bool(v["dummy"])])
    rnd.shuffle(cases)   # balance the shards
    results = execute(binary, [dict(id=c["id"], layer=c["layer"], vec=c["vec"], acts=c["acts"]) for c in cases], seed)
    if len(results) != len(cases):
        raise Inconclusive("driver returned %d results for %d cases" % (len(results), len(cases)))

    # 4. judge
    ndrift, nnotes, nacts, nviol, repaired = 0, 0, 0, 0, 0
    drift_samples, note_samples, samples = [], {}, []
    distinct = set()
    per_layer = {}
    accepted_strict = refused_strict = accepted_nonstrict = 0
    for c in sorted(cases, key=lambda c: c["id"]):
        r = results[c["id"]]
        viol, drift, notes = judge_case(c, preds, pacts, r)
        if drift:
            _, drift_p, _ = judge_case(c, preds_p, pacts_p, r)
            if len(drift_p) < len(drift):
                repaired += len(drift) - len(drift_p)
                drift = drift_p
        per_layer[c["layer"]] = per_layer.get(c["layer"], 0) + 1
        nacts += len(r.get("acts", []))
        distinct.add(json.dumps([c["layer"], {k: c["x"].get(k) for k in DIMS + ["moved", "secret", "via", "note"]}, c["vec"].get("url")], sort_keys=True))
        for n, a in enumerate(r.get("acts", [])):
            # the URL as written in the class tables (the driver adds a per-action marker that must not count as a distinct case)
            orig = c["acts"][n]["url"] if n < len(c["acts"]) and a["kind"] == "outbound" else ""
            if a["kind"] == "jsonld" and a.get("anchor"):
                orig = [a["anchor"], c["acts"][n]["url"] if n < len(c["acts"]) else "", a.get("near_to")]   # template and entry, not the per-action label
            distinct.add(json.dumps([c["layer"], c["x"]["strict"], c["x"].get("dummy"), a["kind"], a["arg"], a["entry"], orig], sort_keys=True))
        if c["layer"] == "system":
            if c["x"]["strict"] and r["accepted"]:
                accepted_strict += 1
            elif c["x"]["strict"]:
                refused_strict += 1
            elif r["accepted"]:
                accepted_nonstrict += 1
        if c["layer"] == "core-url" and c["x"].get("note") and not r.get("error"):
            nnotes += 1
            if c["x"]["strict"] == ("[" not in c["x"]["note"]):
              note_samples.setdefault(c["x"]["note"] + str(c["x"]["strict"]), "public URL %s with strictmode=%s: %s (%s) - %s" % (
                c["x"]["note"], c["x"]["strict"], "accepted" if r["accepted"] else "refused", r["err"][:80], URL_NOTES[c["x"]["note"]]))
        for sig, detail in viol:
            nviol += 1
            rep.violation(sig, dict(property=prop, signature=sig, detail=detail,
                                    input=dict(seed=seed, cases=[dict(id=c["id"], layer=c["layer"], vec=c["vec"], acts=c["acts"], x=c["x"], pred=c.get("pred"), start=c.get("start", True))]),
                                    observed={k: v for k, v in r.items() if k not in ("env", "yaml")}))
        ndrift += len(drift)
        if len(drift_samples) < 10:
            drift_samples += drift[:1]
        for k, n in notes:
            nnotes += 1
            note_samples.setdefault(k, n)
        if len(samples) < 4 and c["layer"] == "system" and (len(samples) % 2 == 0) == bool(r["accepted"]):
            samples.append(dict(abstract=c["x"], concrete=c["vec"], args=r.get("args"), env=[e for e in (r.get("env") or []) if "PORT" not in e][:14], yaml=r.get("yaml"),
                                observed=dict(accepted=r["accepted"], phase=r["phase"], refused_by=r.get("refused_by"), err=r["err"][:160], grpc=r.get("grpc"),
                                              actions=[(a["kind"], a["arg"], a["entry"], a["verdict"]) for a in r.get("acts", [])][:6])))
    for d in drift_samples[:8]:
        rep.notes.append("DRIFT: " + d)
    for k in sorted(note_samples, key=lambda k: (k.startswith("https://"), k))[:7]:
        rep.notes.append("NOTE: " + note_samples[k])
    if repaired:
        rep.notes.append("NOTE: %d executed cases/actions behave like the PRESCRIPTIVE design rather than the descriptive one: a deviation constant of "
                         "spec/cfg/Config.gen.cfg can be switched to TRUE (and its known_findings entry closed)" % repaired)
    if ndrift > max(5, (len(cases) + nacts) // 50) and not rep.violations:
        rep.inconclusive.append("%d of %d executed cases/actions deviate from the descriptive model's prediction (spec/code drift)" % (ndrift, len(cases) + nacts))
    if accepted_strict == 0 or refused_strict == 0 or accepted_nonstrict == 0:
        rep.inconclusive.append("vacuous run: strict accepted %d, strict refused %d, non-strict accepted %d" % (accepted_strict, refused_strict, accepted_nonstrict))

    nsys = per_layer.get("system", 0)
    cov = dict(evaluations=len(cases) + nacts, distinct_nontrivial=len(distinct), exhaustive=not quick,
               vectors_enumerated_by_tlc=len(starts), actions_enumerated_by_tlc=len(acts), cases_per_layer=per_layer, actions_executed=nacts,
               assembled_system_vectors=nsys, assembled_system_strict_accepted=accepted_strict, assembled_system_strict_refused=refused_strict,
               assembled_system_nonstrict_accepted=accepted_nonstrict, violations_observed=nviol, known_findings=sorted(rep.known),
               drift=ndrift, notes=nnotes, cases_matching_only_the_prescriptive_design=repaired, models=models, samples=samples,
               rule="TLC enumerates the complete product of Config.tla: %d configuration vectors (strictmode x 7 public URL classes x tls on/off/offload x "
                    "crypto.storage x storage.sql.connection x dummy validator x IRMA scheme x 3 didmethods sets, plus moved keys x secrets x channel over a "
                    "secure and an insecure base) and %d (strict, dummy, action) cases (dummy sign/verify, JSON-LD context class x allow-list, 9 near-miss relations of a context URL to an allow-list entry [ext-path/name/query/host/userinfo, truncated, same-host, "
                    "scheme-http, embeds] x 3 entry kinds [remote+mapped default, localmapping-only, operator-added], 21 outbound "
                    "entry points x 6 URL classes: 13 with clients built on demand, 5 through the long-lived clients vdr / vcr / discovery build in their own "
                    "Configure before http.Engine.Configure switches client.StrictMode on, 3 through clients built before anything is configured); invariants proven for the transcribed guards. Every engine's full local product runs on the real "
                    "engine's Configure (all concrete URL variants); the assembled cmd.CreateSystem is loaded through the real flag set / environment / yaml "
                    "(channel per option seeded; two concretisations per vector in the thorough tier) for %s, started, probed (gRPC port, actions), shut down. distinct_nontrivial = distinct (layer, abstract "
                    "vector, concrete URL) start-ups plus distinct (layer, strict, dummy, action, concrete URL) actions executed."
                    % (len(starts), len(acts), "ALL enumerated vectors (exhaustive)" if not quick else
                       "a pairwise cover of the engine options + every single-insecure-option vector + seeded samples (%d vectors)" % nsys))
    vlib.write_evidence(prop, tier, seed, "exploration", cov, time.time() - t0, len(rep.violations),
                        ["the IRMA contract validator is never enabled (it downloads its scheme from the internet); validators are employeeid [+ dummy]",
                         "crypto.storage backends other than fs (vault, azure, external) and SQL servers other than sqlite need external services and are not exercised",
                         "the assembled system is driven through cmd.CreateSystem/CreateCommand + System.Load/Configure/Migrate/Start, i.e. the body of "
                         "cmd/root.go startServer re-enacted (logrus.Fatal would end the process); a check added to startServer itself would be missed",
                         "JSON-LD context fetches are observed at the dialer of http.DefaultTransport (json-gold's default loader uses http.DefaultClient), replaced by a "
                         "recording transport that lands every non-loopback connection on the local servers; near-miss context URLs are derived by the driver from the "
                         "allow-list of the real engine (jsonld.DefaultContextConfig + operator entries); fragment / trailing-slash / letter-case variants of an entry "
                         "are deliberately not classified (a normalising comparison would be right to accept them); the loader is exercised through "
                         "JSONLD.DocumentLoader().LoadDocument, not through the expansion of a received credential",
                         "outbound requests are observed at the dialer of the repo's HTTP transport, rerouted to local servers; 'performed' = a connection attempt left the node",
                         "long-lived clients are reached through the running engines: did:web resolution (vdr), credential verification with a StatusList2021 entry (vcr), "
                         "a forwarded discovery Get (definitions generated per URL, discovery.client.refresh_interval=0), and the two OpenID4VCI clients of vcr through "
                         "the accessor shim shims/vcr/zz_verif_config.go.txt (a renamed field makes the check exit 2)",
                         "'network TLS switched off' is insecure only when did:nuts is enabled: without it network.Configure starts no gRPC listener (probed) and the "
                         "documentation says the tls.* options can then be ignored",
                         "harness-fixed options: free ports, pki.denylist.url empty, network.enablediscovery=false, goldenhammer off, verbosity error"])
    return rep.finish()
