"""C04: HttpGuard.tla <-> the real http.Engine (MultiEcho + tokenV2 middleware) driven with raw TCP request lines.

TLC (1) proves the invariants AuthSound / FailureIs401 / DeniedNoEffect / ListenerSeparation for the prescriptive design
(guard on the parsed path, exactly one signature) over the complete product of abstract cases, and (2) enumerates the
same product for the descriptive design (= the code as read) printing one case + predicted verdict per terminal state.
Every case is concretised by the Go driver (atoms concatenated into the request target, credential forged from the
token attributes) and sent to the real engine.  The verdict comes from the real observables only:
  * a handler registered under /internal ran although the credential is invalid by the statement   -> violation
  * a request the router dispatches to an /internal handler (control: same target, valid token) carrying an invalid
    credential is not answered 401, or a handler ran on a 401                                       -> violation
  * a handler of /internal, /status, /metrics, /health ran for a request sent to the public port   -> violation
A case is one request or a HISTORY of two requests to the same engine (family "history": the same credential presented again
after its exp has passed, the claims of a granted token under a foreign signature, no credential on the connection a request was
granted on); the verdict is about the LAST request, judged by the statement at the time it was sent (the driver reports the send
times and the exp claim; a second request that was not sent after exp is a dead case, never a verdict).
Two small configurations with a deviation switched on (HttpGuard.history.dev.cfg, HttpGuard.clean.dev.cfg) must be REFUTED by
TLC: they show that the histories / the multi-segment parameter and wildcard targets are dangerous inputs of the model.
Differences between the model's prediction and the real verdict that the statement does not forbid are DRIFT."""
import json, os, random, time
from concurrent.futures import ThreadPoolExecutor
from .. import vlib
from ..vlib import Report, Inconclusive

PROPS = ["C04"]
INTERNAL_AUTH = {"internal", "iparam", "iwild", "iroot"}
INTERNAL_BOUND = INTERNAL_AUTH | {"status", "metrics", "health"}
ACTIONS = ["Route", "Guard", "Extract", "Secure", "Verify", "Validate", "Best", "Issuer", "Dispatch", "Follow"]
DEFAULT_TOK = {"shape": "bearer", "ser": "compact", "alg": "ed25519/EdDSA", "signer": "authorised", "hdr": "none", "aud": "ok",
               "iss": "ok", "sub": "ok", "jti": "uuid", "nbf": "60s", "iat": "0", "life": "1h", "len": "ok"}
WORKERS = 8


def constants_of(cfg):
    out = []
    for line in open(os.path.join(vlib.SPEC, "cfg", cfg)):
        line = line.strip()
        if "=" in line and not line.startswith("\\*"):
            out.append(line.replace(" ", ""))
    return sorted(out)


def tkey(c):
    return (c["cfg"], c["port"], c["method"], "".join(c["target"]))


def is_history(c):
    return c.get("rel", "none") != "none"


def ckey(c):
    return json.dumps([tkey(c), c["tok"], c.get("rel", "none"), [p["tok"] for p in c.get("past", [])]], sort_keys=True)


def deviations(tok):
    return ",".join("%s=%s" % (k, tok[k]) for k in sorted(tok) if tok[k] != DEFAULT_TOK[k])


def cause_of(c):
    """The attribute values that make the credential invalid: those that do so alone, else the deviating time claims, else all."""
    if c.get("expzero"):
        return "exp=0"
    if is_history(c) and c["rel"] == "same-later" and c["past"][0]["tok"]["life"] == "short":
        return "expired"     # the credential the first request was granted with, presented again after its exp
    if c["why"]:
        return ",".join("%s=%s" % (a, c["tok"][a]) for a in sorted(c["why"]))
    t = ",".join("%s=%s" % (a, c["tok"][a]) for a in ("iat", "life", "nbf") if c["tok"][a] != DEFAULT_TOK[a])
    return t or deviations(c["tok"])


def classify(o):
    if o["reached"]:
        return "handler", o["reached"][0]
    if o["status"] == 401:
        return "401", "none"
    return "other", "none"


def judge(cases, results, rep, prop):
    """Evaluates the property on the real observations. Returns statistics."""
    byid = {c["id"]: c for c in cases}
    got = {r["id"]: r for r in results}
    # controls: what the same target does with a valid credential / without any credential
    valid_reach, absent_reach = {}, {}
    for c in cases:
        r = got.get(c["id"])
        if not r or r.get("error") or not r.get("obs"):
            continue
        if is_history(c):
            continue
        dev = deviations(c["tok"])
        reached = set(x for o in r["obs"] for x in o["reached"])
        if dev == "":
            valid_reach[tkey(c)] = reached
        elif dev == "shape=absent":
            absent_reach[tkey(c)] = reached
    st = dict(requests=0, nontrivial=set(), drift=[], errors=[], granted=0, denied=0, unchecked401=0, samples=[], repaired=0,
              histories=0, histories_first_granted=0, history_samples=[])

    controls = {}
    for x in cases:
        if deviations(x["tok"]) in ("", "shape=absent") and not is_history(x):
            controls.setdefault(tkey(x), []).append(x)

    def siblings(c):
        return controls.get(tkey(c), [])

    for c in cases:
        r = got.get(c["id"])
        if r is None:
            st["errors"].append("case %s: no result" % c["id"])
            continue
        if r.get("error"):
            st["errors"].append("case %s: %s" % (c["id"], r["error"]))
            continue
        for o in r["obs"]:
            st["requests"] += 1
            if o.get("err"):
                st["errors"].append("case %s (%s): %s" % (c["id"], o["line"], o["err"]))
                continue
            real = classify(o)
            reached = set(o["reached"])
            hist = {}
            if is_history(c):
                # the statement is applied at the time the request was sent: a token counts as expired only if it was
                f = o.get("first") or {}
                if f.get("err") or not o.get("sent_at"):
                    st["errors"].append("case %s: history %s: the first request failed: %s" % (c["id"], c["rel"], f.get("err")))
                    continue
                st["histories"] += 1
                if set(f.get("reached", [])) & INTERNAL_AUTH and f.get("user"):
                    st["histories_first_granted"] += 1
                if c["rel"].endswith("-later") and c["past"][0]["tok"]["life"] == "short" and not o["sent_at"] >= o["first_exp"] + 0.2:
                    st["errors"].append("case %s: history %s: the second request was sent %.2f s before the token expired" % (
                        c["id"], c["rel"], o["first_exp"] - o["sent_at"]))
                    continue
                hist = dict(history=c["rel"])
                if len(st["history_samples"]) < 3 and c["rel"] not in [h["relation"] for h in st["history_samples"]]:
                    st["history_samples"].append(dict(relation=c["rel"], first=dict(request_line=f.get("line"), http_status=f.get("status"), reached=f.get("reached"),
                                                                                    token_exp=o["first_exp"], sent_at=round(o["first_sent_at"], 2)),
                                                      second=dict(request_line=o["line"], sent_at=round(o["sent_at"], 2), http_status=o["status"], reached=o["reached"]),
                                                      validity_of_second=c["validity"]))
            if reached or o["status"] == 401:
                st["nontrivial"].add(c["id"])
            if reached & INTERNAL_AUTH and o.get("user"):
                st["granted"] += 1
            if o["status"] == 401:
                st["denied"] += 1
            replay = dict(property=prop, cases=[c] + [s for s in siblings(c) if s["id"] != c["id"]])
            # (1) no /internal handler without a valid credential
            if reached & INTERNAL_AUTH and c["validity"] == "no":
                if absent_reach.get(tkey(c), set()) & INTERNAL_AUTH:
                    sig = dict(kind="auth-bypass", target_form=c["form"].split("-")[0], path_variant=c["variant"], route=c["route"])
                else:
                    sig = dict(kind="invalid-token-accepted", token=cause_of(c), **hist)
                rep.violation(sig, dict(replay, violation=dict(sig, line=o["line"], auth=o.get("auth"), status=o["status"], reached=o["reached"],
                                                               first=o.get("first"), sent_at=o.get("sent_at"), first_exp=o.get("first_exp"))))
            # (2) every failure is answered 401 with no side effect
            elif c["validity"] == "no" and valid_reach.get(tkey(c), set()) & INTERNAL_AUTH:
                if o["status"] != 401 or reached:
                    sig = dict(kind="failure-not-401", status=o["status"], token=cause_of(c), **hist)
                    rep.violation(sig, dict(replay, violation=dict(sig, line=o["line"], auth=o.get("auth"), reached=o["reached"])))
            elif c["validity"] == "no" and tkey(c) not in valid_reach:
                st["unchecked401"] += 1
            if o["status"] == 401 and reached:
                sig = dict(kind="side-effect-on-denied", route=sorted(reached)[0])
                rep.violation(sig, dict(replay, violation=dict(sig, line=o["line"], auth=o.get("auth"))))
            # (3) internal families are never served by the public listener
            if c["cfg"] == "diff" and c["port"] == "public" and reached & INTERNAL_BOUND:
                sig = dict(kind="internal-on-public", route=sorted(reached & INTERNAL_BOUND)[0])
                rep.violation(sig, dict(replay, violation=dict(sig, line=o["line"], status=o["status"])))
            # drift: the descriptive model predicted something else (not a verdict)
            if real != (c["status"], c["reached"]) and real == tuple(c.get("presc", ())):
                st["repaired"] += 1   # the code behaves like the prescriptive model here: a deviation has been repaired
            elif real != (c["status"], c["reached"]):
                st["drift"].append("%s [%s] %s/%s: model %s/%s, real %s/%s (HTTP %d)" % (
                    o["line"], deviations(c["tok"]) or "valid", c["cfg"], c["port"], c["status"], c["reached"], real[0], real[1], o["status"]))
            elif real[0] == "handler" and real[1] in INTERNAL_AUTH and c["user"] == "issuer" and not o.get("user"):
                st["drift"].append("%s: handler ran after authentication but the user is not set on the context" % o["line"])
            if len(st["samples"]) < 6 and (len(st["samples"]) % 2 == 0) == bool(reached):
                st["samples"].append(dict(cfg=c["cfg"], port=c["port"], request_line=o["line"], authorization=o.get("auth"),
                                          token_deviations=deviations(c["tok"]) or "none (valid)", validity=c["validity"],
                                          model=dict(status=c["status"], reached=c["reached"]), real=dict(http_status=o["status"], reached=o["reached"], user=o.get("user"))))
    return st


def sanity(cases, results):
    """The check is only meaningful if the valid credential opens a plainly addressed /internal route and no credential gets 401."""
    got = {r["id"]: r for r in results}
    ok_valid = ok_absent = False
    for c in cases:
        if (c["form"], c["variant"], c["route"], c["port"]) != ("origin", "plain", "internal", "internal") or is_history(c):
            continue
        r = got.get(c["id"])
        if not r or not r.get("obs"):
            continue
        o = r["obs"][0]
        dev = deviations(c["tok"])
        if dev == "" and "internal" in o["reached"] and o.get("user"):
            ok_valid = True
        if dev == "shape=absent" and o["status"] == 401 and not o["reached"]:
            ok_absent = True
    if not ok_valid:
        raise Inconclusive("control failed: a valid token on GET /internal/x did not reach the handler (driver/credential builder out of date?)")
    if not ok_absent:
        raise Inconclusive("control failed: GET /internal/x without credential was not answered 401 (authentication not enabled in the driver?)")


def run(prop, tier, seed, replay=None):
    t0 = time.time()
    rep = Report(prop)
    binary = vlib.build_driver("httpguard")
    if replay:
        obj = json.load(open(replay))
        cases = obj["cases"]
        res = vlib.run_driver(binary, dict(cases=cases), timeout=120)
        for r in res:
            print(json.dumps(r)[:2000])
        st = judge(cases, res, rep, prop)
        for e in st["errors"]:
            rep.inconclusive.append(e)
        return rep.finish()

    quick = tier == "quick"
    rnd = random.Random(seed)
    models, cover = [], {}
    states = transitions = 0
    cases = []
    predicted_bad = 0
    # vacuity guards of the added dimensions: with the deviation switched on TLC must refute AuthSound on the generated inputs
    guards = []
    for dev in ["HttpGuard.history.dev.cfg"] + ([] if quick else ["HttpGuard.clean.dev.cfg"]):
        d = vlib.tlc("HttpGuard", dev, workers=WORKERS // 2, timeout=600)
        if d.error:
            raise Inconclusive("TLC %s: %s" % (dev, d.error))
        if d.violation != "AuthSound":
            raise Inconclusive("vacuity: %s (a deviation switched on) is not refuted by TLC: the inputs that make the deviation visible "
                               "are not generated any more (violation=%s)" % (dev, d.violation))
        guards.append(dict(cfg=dev, refuted="AuthSound", states=d.distinct, wall_s=round(d.wall, 1)))
    for fam in ("targets", "tokens", "claims", "history"):
        base = "HttpGuard.%s" % fam if fam in ("claims", "history") else "HttpGuard.%s.%s" % (fam, "quick" if quick else "thorough")
        same = constants_of(base + ".gen.cfg") == constants_of(base + ".cfg")
        # the prescriptive and the descriptive run of a family go in parallel (4 workers each = 8 in total)
        with ThreadPoolExecutor(max_workers=2) as ex:
            fm = ex.submit(vlib.tlc, "HttpGuard", base + ".cfg", workers=WORKERS if same else WORKERS // 2, timeout=900, coverage=not quick)
            fg = None if same else ex.submit(vlib.tlc, "HttpGuard", base + ".gen.cfg", workers=WORKERS // 2, timeout=900)
            m = fm.result()
            gres = fg.result() if fg else None
        if m.error:
            raise Inconclusive("TLC %s: %s" % (base, m.error))
        if m.violation:
            raise Inconclusive("the prescriptive model %s violates %s:\n%s" % (base, m.violation, m.raw[-2500:]))
        states += m.distinct
        transitions += m.generated
        for a, n in m.coverage.items():
            cover[a] = cover.get(a, 0) + n
        models.append(dict(cfg=base + ".cfg", states=m.distinct, transitions=m.generated, wall_s=round(m.wall, 1)))
        presc = {ckey(c): (c["status"], c["reached"]) for c in m.printed}
        if same:
            g = m     # no deviation constant is switched on: descriptive = prescriptive, one TLC run serves both
            g.printed = [dict(c) for c in m.printed]
        else:
            g = gres
            if not g.ok:
                raise Inconclusive("TLC %s.gen: %s %s" % (base, g.violation, g.error))
        g.printed.sort(key=lambda c: json.dumps(c, sort_keys=True))
        for c in g.printed:
            c["fam"] = fam
        predicted_bad += sum(1 for c in g.printed if c["bad"])
        models.append(dict(cfg=base + ".gen.cfg", states=g.distinct, cases=len(g.printed), wall_s=round(g.wall, 1)))
        for c in g.printed:
            c["presc"] = list(presc[ckey(c)])
        cases += g.printed
    if not quick:
        missing = [a for a in ACTIONS if not cover.get(a)]
        if missing:
            raise Inconclusive("vacuity: actions never fired in the model: %s" % missing)
    # the two families overlap on a few cases: keep one of each
    uniq = {}
    for c in cases:
        uniq.setdefault(ckey(c), c)
    cases = list(uniq.values())
    rnd.shuffle(cases)
    for i, c in enumerate(cases):
        c["id"] = "c%06d" % i
    results = vlib.run_driver_parallel(binary, dict(cases=cases), key="cases", shards=WORKERS, timeout=420)
    sanity(cases, results)
    st = judge(cases, results, rep, prop)
    if st["errors"]:
        for e in st["errors"][:10]:
            rep.inconclusive.append(e)
    ndrift = len(st["drift"])
    for d in sorted(set(st["drift"]))[:8]:
        rep.notes.append("DRIFT: " + d)
    if ndrift > max(5, st["requests"] // 20) and not rep.violations:
        rep.inconclusive.append("%d of %d real verdicts differ from the model's prediction: the descriptive model is out of date" % (ndrift, st["requests"]))
    if st["repaired"]:
        rep.notes.append("NOTE: %d real verdicts follow the PRESCRIPTIVE model instead of the descriptive one: a deviation named by a constant of "
                         "HttpGuard.tla has been repaired in the code, switch it in spec/cfg/HttpGuard.*.gen.cfg" % st["repaired"])
    if not st["histories"] or st["histories_first_granted"] * 2 < st["histories"]:
        rep.inconclusive.append("vacuity: %d histories, the first request was granted in %d of them" % (st["histories"], st["histories_first_granted"]))
    if not st["granted"] or not st["denied"]:
        rep.inconclusive.append("vacuity: granted=%d denied=%d" % (st["granted"], st["denied"]))
    cov = dict(evaluations=st["requests"], distinct_nontrivial=len(st["nontrivial"]), exhaustive=True,
               rule="TLC enumerates the complete product listener(same/different address x port) x request target (form x path variant x "
                    "route family, as atom sequences) x credential (all tokens with at most %d deviations from a valid one on the core targets, "
                    "%s on all targets); every case is one raw TCP request (several for MAC algorithms / Basic encodings) against the real "
                    "http.Engine; family history: two requests to the same engine (first: a valid token of each permitted algorithm, expiring "
                    "in 3 s or in 1 h; second: the same text after the 3 s have passed / the same claims signed by a foreign key / no credential on the "
                    "same connection), judged at the time the second request was sent. distinct = distinct (listener, target, token attributes); non-trivial = the real request was answered by the token "
                    "middleware (401) or ran a registered handler (requests refused by net/http or unrouted are counted in evaluations only)"
                    % ((1, "the 9 core tokens") if quick else (2, "all tokens with at most 1 deviation")),
               samples=st["samples"], history_samples=st["history_samples"], histories=st["histories"],
               histories_first_request_granted=st["histories_first_granted"], deviation_models_refuted=guards, abstract_cases=len(cases), states=states, transitions=transitions, models=models,
               action_coverage=cover, drift=ndrift, drift_samples=sorted(set(st["drift"]))[:5],
               model_predicted_violations=predicted_bad, verdicts_matching_prescriptive_model_only=st["repaired"], requests_granted=st["granted"], requests_denied_401=st["denied"],
               invalid_credentials_on_unrouted_targets=st["unchecked401"], known_findings=sorted(rep.known))
    vlib.write_evidence(prop, tier, seed, "exploration", cov, time.time() - t0, len(rep.violations),
                        ["the validity of a forged credential is known by construction (attributes -> bytes in harness/drivers/httpguard)",
                         "Go net/http 1.x request-line parsing and echo v4 routing as linked into the binary",
                         "signature primitives of jwx / Go crypto are trusted",
                         "routes registered by the driver stand for the node's handlers: static, parameterised (:id), wildcard (*) and root route under /internal, "
                         "/status, /metrics, /health and one public route; methods GET/CONNECT/OPTIONS",
                         "HTTP/1.1 over plain TCP only (no HTTP/2, no TLS offloading proxy in front)",
                         "histories have two requests and a lapse of about 3 s of real time (no clock seam in tokenV2); longer histories and longer "
                         "lapses are not explored"])
    return rep.finish()
