"""C16: Discovery.tla <-> discovery.Module as server and as client (two sqlite databases, statement gates inside
the server's get, real JWT presentations of did:jwk subjects)."""
import json, os, random, re, shutil, time
from concurrent.futures import ThreadPoolExecutor
from .. import vlib
from ..vlib import Report, Inconclusive

PROPS = ["C16"]

# concrete realisations of the abstract defect class "bad" (driver: run.build); every one is rejected by exactly
# one stage of Module.verifyRegistration
REG_BAD = ["ldp", "noid", "aud", "noaud", "noexp", "toolong", "expired", "method", "outlive", "outlive-self", "missing",
           "missing-member", "missing-registration", "surplus", "surplus-registration", "nonmatch", "nonmatch-issuer", "badsig",
           "otherkey", "vcsig"]
ORDERS = ["mf", "sf"]   # credential order inside a registration: member credential first / the holder's own credential first
RET_BAD = ["ldp", "noid", "aud", "noaud", "noexp", "toolong", "expired", "method", "badsig", "otherkey", "ret-nojti"]
POLL = [dict(a="PollFirst"), dict(a="PollSecond"), dict(a="ClientApply")]

ASSUMPTIONS = [
    "ES256 / SHA-256 and the jwx library are sound (signatures are uninterpreted in the specification)",
    "SQL isolation: sqlite with one connection, a gorm transaction is an atomic step; the two statements of sqlStore.get run "
    "outside a transaction (as in the code) and READ COMMITTED or stronger is assumed for other databases",
    "one client poll in flight at a time; a server reset does not straddle the two statements of a running get",
    "time: one expiry instant per behaviour (short-lived presentations with real 3 s validity + real waiting)",
    "small scope: 3 subjects, <= 5 state changing server events, <= 2 rejected submissions, 1 reset, 1 expiry instant",
    "liveness is proved on the model under weak fairness of polling; on the code it is checked as "
    "'3 further complete polls after the last server event'",
    "database failures in the middle of an update of the client are not injected",
    "restart: a process is stopped and started again between two of its own steps (Module.Shutdown, then a new Module on the same "
    "storage engine): the server not between the two statements of a running get, the client not while a poll is in flight; "
    "a crash in the middle of a database transaction is not injected; <= 2 restarts per behaviour",
]


def subst(cfg, **repl):
    txt = open(os.path.join(vlib.SPEC, "cfg", cfg)).read()
    for k, v in repl.items():
        new, n = re.subn(r"^(\s*%s\s*=\s*).*$" % re.escape(k), lambda m: m.group(1) + v, txt, flags=re.M)
        if n != 1:
            raise Inconclusive("cannot substitute %s in %s" % (k, cfg))
        txt = new
    return txt


_scratch = []


# the deviation constants as the configs in spec/cfg carry them (= the current tree): F-C16-seedwipe has been repaired,
# F-C16-shortlived is open
CFG_DEFAULT = dict(RefetchOnSeedChange="TRUE", SupersedeMustOutlive="FALSE", RestartKeepsService="TRUE")


def fixed_from_env():
    fixed = os.environ.get("VERIF_C16_FIXED", "")
    unfixed = os.environ.get("VERIF_C16_UNFIXED", "")
    return dict(RefetchOnSeedChange="FALSE" if "seedwipe" in unfixed else "TRUE",
                SupersedeMustOutlive="TRUE" if "shortlived" in fixed else "FALSE",
                RestartKeepsService="FALSE" if "restartkeeps" in unfixed else "TRUE")


def variant(cfg, repl=None):
    """The descriptive configs mirror the CURRENT tree (seedwipe repaired, shortlived present). After a fix: commit the deviation
    constant has to be switched in Discovery.gen*.cfg / sim / trace; VERIF_C16_FIXED=shortlived does the same for an experiment
    (VERIF_C16_UNFIXED=seedwipe: the model of the tree before that repair), and trace validation tries the other variants by
    itself before it reports drift."""
    repl = repl or fixed_from_env()
    if repl == CFG_DEFAULT:
        return cfg
    if not _scratch:
        _scratch.append(vlib.scratch("c16cfg"))
    path = os.path.join(_scratch[0], "-".join("%s=%s" % (k, v) for k, v in sorted(repl.items())) + "." + cfg)
    with open(path, "w") as fh:
        fh.write(subst(cfg, **repl))
    return path      # absolute: os.path.join(SPEC, "cfg", path) == path


def features(b):
    """What a behaviour exercises: used to pick a diverse subset."""
    f = set()
    phase = "idle"
    listed = 0          # accepted submissions since the server last lost its database
    client_ts = resp_ts = 0     # timestamp the client holds / the one travelling in the response
    reset_unseen = False        # the server lost its database and the client has not applied a response since
    for i, s in enumerate(b):
        a = s["a"]
        if a == "Submit":
            f.add(("sub", s["kind"], s["e"], s["d"], s["res"]))
            if s["res"] == "accepted":
                f.add(("during", phase, s["kind"]))
                listed += 1
        elif a in ("Tick", "ServerReset"):
            f.add((a,))
            f.add(("during", phase, a))
            if a == "ServerReset":
                listed = 0
                reset_unseen = True
        elif a in ("ServerRestart", "ClientRestart"):
            # where in the history: poll phase, what the database holds, which server event comes next
            nxt = next((x["a"] + "/" + x.get("kind", "") for x in b[i + 1:]
                        if x["a"] in ("Tick", "ServerReset") or (x["a"] == "Submit" and x["res"] == "accepted")), "none")
            f.add((a, phase, min(listed, 2), nxt))
        elif a == "PollFirst":
            phase = "mid"
            if reset_unseen:
                # how the NEW list's timestamp relates to the one the client still holds (equal: only the seed tells them apart)
                f.add(("poll-after-reset", "<" if listed < client_ts else "=" if listed == client_ts else ">", min(client_ts, 2)))
        elif a == "PollSecond":
            phase = "resp"
            resp_ts = listed
        elif a == "ClientApply":
            phase = "idle"
            if not s.get("out"):
                client_ts, reset_unseen = resp_ts, False
            if s.get("out"):
                f.add(("outage",))
        elif a == "ClientValidate":
            f.add(("validate", phase))
    return f


def pick(behaviours, n, rnd):
    """Greedy cover: repeatedly take a behaviour from the rarest feature bucket."""
    by = {}
    for i, b in enumerate(behaviours):
        by.setdefault(frozenset(features(b)), []).append(i)
    keys = sorted(by, key=lambda k: sorted(map(str, k)))
    rnd.shuffle(keys)
    for k in keys:
        rnd.shuffle(by[k])
    out = []
    # rare situations that must not depend on the luck of the draw: a poll after a server reset that meets the timestamp the
    # client already holds (three of them, with a non-empty new list)
    must = [k for k in keys if any(x[0] == "poll-after-reset" and x[1] == "=" and x[2] > 0 for x in k)]
    for k in must[:3]:
        if by[k]:
            out.append(behaviours[by[k].pop()])
    while len(out) < n and keys:
        for k in list(keys):
            if by[k]:
                out.append(behaviours[by[k].pop()])
                if len(out) >= n:
                    break
            else:
                keys.remove(k)
    return out, len(by)


def trim(b):
    """Drops complete polls at the end (the driver always appends its own fair suffix of polls)."""
    b = list(b)
    while len(b) >= 3 and [s["a"] for s in b[-3:]] == ["PollFirst", "PollSecond", "ClientApply"] and not b[-1].get("out"):
        b = b[:-3]
    return b


class Deck:
    """Deals the concrete realisations round-robin (shuffled), so that every defect class x credential order is replayed
    as soon as there are enough defective submissions, whatever the seed."""
    def __init__(self, rnd):
        self.rnd, self.cards = rnd, {}

    def deal(self, name, items):
        d = self.cards.get(name)
        if not d:
            d = self.cards[name] = list(items)
            self.rnd.shuffle(d)
        return d.pop()


def concretise(b, rnd, deck=None):
    deck = deck or Deck(rnd)
    out = []
    for s in b:
        s = dict(s)
        if s["a"] == "Submit":
            s["c"] = ""
            # the order of the credentials is the environment's choice and must not matter to the verdict
            s["o"] = "mf"
            if s["kind"] == "reg":
                if s["d"] == "bad":
                    s["c"], s["o"] = deck.deal("reg-bad", [(c, o) for c in REG_BAD for o in ORDERS])
                else:
                    s["o"] = deck.deal("order-" + s["d"], ORDERS)
            elif s["d"] == "bad":
                s["c"] = deck.deal("ret-bad", RET_BAD)
            elif s["d"] == "ret-unknown":
                s["c"] = deck.deal("ret-unknown", ["", "ret-nojti"])
        out.append(s)
    return out


def abstract_trace(trace):
    return [{k: v for k, v in e.items() if k not in ("err", "c")} for e in trace]


def S(s, kind="reg", e="long", d="none", c="", res="accepted"):
    return dict(a="Submit", s=s, kind=kind, e=e, d=d, c=c, res=res)


def selftest_scripts():
    """Schedules on which a server that read its timestamp AFTER its rows would lose an entry for ever."""
    return [dict(id="selftest-%d" % i, steps=st) for i, st in enumerate([
        [S("s1")] + POLL + [S("s2"), dict(a="PollFirst"), dict(a="PollSecond"), S("s3"), dict(a="ClientApply")],
        [S("s1"), dict(a="PollFirst"), dict(a="PollSecond"), S("s2"), dict(a="ClientApply")],
    ])]


def directed_scripts():
    """Behaviours of Discovery.tla that do not depend on the luck of the draw: the server loses its database and its NEW list
    reaches exactly the timestamp the client already holds (only the seed tells the two lists apart), with one or two entries,
    followed by nothing / by one more registration."""
    R = dict(a="ServerReset")
    return [dict(id="directed-%d" % i, steps=st) for i, st in enumerate([
        [S("s1")] + POLL + [R, S("s2")] + POLL,
        [S("s1")] + POLL + [R, S("s2")] + POLL + [S("s3")] + POLL,
        [S("s1"), S("s2")] + POLL + [R, S("s3"), S("s1")] + POLL,
        [S("s1")] + POLL + [R, S("s1")] + POLL,
    ])]


def restart_selftest_scripts():
    """Histories on which a server that re-initialised its service row at start-up would hand out a timestamp twice."""
    return [dict(id="selftest-restart-%d" % i, steps=st) for i, st in enumerate([
        [S("s1")] + POLL + [dict(a="ServerRestart"), S("s2")],
        [S("s1"), S("s2"), dict(a="PollFirst"), dict(a="PollSecond"), dict(a="ServerRestart"), dict(a="ClientApply"), dict(a="ClientRestart"), S("s3")],
    ])]


def run_tlc_checks(quick, coverage):
    """The prescriptive design satisfies the invariants, action properties and the liveness property."""
    tier = "quick" if quick else "thorough"
    out = {}
    def one(name, cfg, workers):
        r = vlib.tlc("MCDiscovery", cfg, workers=workers, timeout=2400, coverage=coverage and name in ("safety", "validate", "restart"))
        ok = r.ok
        if not ok:
            raise Inconclusive("model %s: violation=%s error=%s\n%s" % (cfg, r.violation, r.error, r.raw[-2500:]))
        return name, cfg, r
    with ThreadPoolExecutor(max_workers=4) as ex:
        futs = [ex.submit(one, "safety", "Discovery.safety.%s.cfg" % tier, 4),
                ex.submit(one, "validate", "Discovery.validate.%s.cfg" % tier, 2),
                ex.submit(one, "restart", "Discovery.restart.%s.cfg" % tier, 2 if quick else 4),
                ex.submit(one, "live", "Discovery.live.%s.cfg" % tier, 2)]
        for f in futs:
            name, cfg, r = f.result()
            out[name] = (cfg, r)
    return out


def vacuity(models):
    """Every invariant can fail: switching one design decision off must make TLC report exactly that property."""
    base = "Discovery.safety.quick.cfg"
    cases = [
        ("Converged", dict(RefetchOnSeedChange="FALSE"), "the stale response applied after a seed wipe (F-C16-seedwipe, repaired)"),
        ("Converged", dict(SupersedeMustOutlive="FALSE"), "a shorter-lived presentation replaces a longer-lived one (code as it is)"),
        ("Converged", dict(ReadTsFirst="FALSE"), "get reading the rows before the timestamp"),
        ("OneLiveEntryPerSubject", dict(DeletePrevious="FALSE"), "add() not deleting the previous presentations"),
        ("ListedOnlyVerified", dict(Checks='{"replay", "ret-other", "ret-unknown", "ret-creds"}'), "a missing pipeline check"),
        ("ListedOnlyVerified|RetractionOnlyBySigner", dict(Checks='{"bad", "replay", "ret-unknown", "ret-creds"}'), "a retraction of somebody else's entry"),
        ("SearchSound", dict(SearchValidatedOnly="FALSE"), "search without the validated filter"),
        ("SearchSound", dict(SearchUnexpiredOnly="FALSE"), "search without the expiry filter"),
        ("SearchSound", dict(ValidateMarksPassing="FALSE", _base="Discovery.validate.quick.cfg"),
         "a validation round that flags other rows than the ones that passed"),
        ("TimestampCoversRows|RestartKeepsList|TimestampsStrictlyIncrease", dict(RestartKeepsService="FALSE", _base="Discovery.restart.quick.cfg"),
         "a start-up that re-initialises the service row of a database that holds a list"),
    ]
    def one(case):
        want, repl, why = case
        repl = dict(repl)
        b = repl.pop("_base", base)
        r = vlib.tlc("MCDiscovery", b, workers=2, timeout=900, files={"run.cfg": subst(b, **repl)})
        if r.violation not in want.split("|"):
            raise Inconclusive("vacuity guard: with %s TLC should violate %s, got violation=%s error=%s" % (why, want, r.violation, r.error))
        return dict(expect_violated=want, variant=repl, got=r.violation)
    with ThreadPoolExecutor(max_workers=4) as ex:
        res = list(ex.map(one, cases))
    # liveness must fail on the model of the tree before the repair of F-C16-seedwipe
    r = vlib.tlc("MCDiscovery", "Discovery.live.quick.cfg", workers=2, timeout=900,
                 files={"run.cfg": subst("Discovery.live.quick.cfg", RefetchOnSeedChange="FALSE", MaxEvents="4")})
    if not (r.violation or "Temporal" in (r.error or "")):
        raise Inconclusive("vacuity guard: Converges should fail without RefetchOnSeedChange: %s %s" % (r.violation, r.error))
    res.append(dict(expect_violated="Converges", variant=dict(RefetchOnSeedChange="FALSE"), got="temporal"))
    models.append(dict(vacuity_guards=res))


def generate(quick, seed, rnd, n_exh, n_val, n_rst, n_sim):
    """Witnesses of the three descriptive generation models (main family; family "validate": an apply with an unavailable
    verifier and background validation rounds; family "restart": the server / client process restarted on its database at every
    point of a history) and random walks of the simulation model (everything combined)."""
    fams = (("main", "Discovery.gen.quick.cfg" if quick else "Discovery.gen.cfg", n_exh, 6),
            ("validate", "Discovery.gen.validate.quick.cfg" if quick else "Discovery.gen.validate.cfg", n_val, 2),
            ("restart", "Discovery.gen.restart.quick.cfg" if quick else "Discovery.gen.restart.cfg", n_rst, 2 if quick else 4))
    with ThreadPoolExecutor(max_workers=4) as ex:     # 6 + 2 + 2 TLC workers, the simulation is single threaded
        fg = [ex.submit(vlib.tlc, "MCDiscovery", variant(cfg), workers=w, timeout=2400) for _, cfg, _, w in fams]
        fs = ex.submit(vlib.tlc, "MCDiscovery", variant("Discovery.sim.cfg"), workers=1, simulate="num=%d" % n_sim, depth=45,
                       seed=seed, timeout=1200)
        runs, s = [f.result() for f in fg], fs.result()
    gens, chosen, n_wit, nb = [], [], 0, 0
    for (fam, cfg, n, _), g in zip(fams, runs):
        if not g.ok:
            raise Inconclusive("generation run %s failed: %s %s" % (cfg, g.violation, g.error))
        wit = g.printed
        if fam == "validate":   # the main family already covers behaviours without an outage
            wit = [b for b in wit if any(st.get("out") for st in b)]
        if fam == "restart":
            wit = [b for b in wit if any(st["a"] in ("ServerRestart", "ClientRestart") for st in b)]
        wit.sort(key=lambda b: json.dumps(b, sort_keys=True))
        c, k = pick(wit, n, rnd)
        chosen += [(fam, b) for b in c]
        n_wit += len(wit)
        nb += k
        gens.append((cfg, g))
    if s.error:
        raise Inconclusive("simulation failed: " + str(s.error))
    sim = vlib.dedupe_maximal(s.printed)
    sim.sort(key=lambda b: json.dumps(b, sort_keys=True))
    return gens, n_wit, nb, chosen, sim


def judge(rep, prop, results, scripts, common):
    ninc = 0
    stats = dict(checks=0, accepted=0, rejected=0, wipes=0, races=0, deferred=0, refetches=0, restarts=0, drift=0)
    for r in results:
        for k in ("checks", "accepted", "rejected", "wipes", "races", "deferred", "refetches", "restarts"):
            stats[k] += r.get(k, 0)
        stats["drift"] += len(r.get("drift") or [])
        sc = scripts[r["id"]]
        if r.get("error"):
            ninc += 1
            rep.inconclusive.append("script %s: %s" % (r["id"], r["error"]))
        for d in (r.get("drift") or [])[:1]:
            if len(rep.notes) < 5:
                rep.notes.append("DRIFT: script %s %s" % (r["id"], d[:300]))
        for v in r["violations"]:
            if v["prop"] != prop:
                continue
            rep.violation(dict(kind=v["kind"], site=v["site"]), dict(property=prop, violation=v, input=dict(common, scripts=[sc])))
    return ninc, stats


def run(prop, tier, seed, replay=None):
    t0 = time.time()
    rep = Report(prop)
    binary = vlib.build_driver("discovery")
    if replay:
        obj = json.load(open(replay))
        res = vlib.run_driver(binary, obj["input"])
        for r in res:
            print(json.dumps({k: v for k, v in r.items() if k != "trace"})[:3000])
            for v in r["violations"]:
                if v["prop"] == prop:
                    rep.violation(dict(kind=v["kind"], site=v["site"]), obj)
            if r.get("error"):
                rep.inconclusive.append(r["error"])
        return rep.finish()

    quick = tier == "quick"
    rnd = random.Random(seed)
    n_exh, n_val, n_rst, n_sim = (200, 100, 90, 140) if quick else (1700, 700, 700, 1000)
    common = dict(workers=6, final_polls=3)

    phases = {}
    # 1. behaviours from the descriptive model
    gens, n_wit, n_buckets, chosen, sim = generate(quick, seed, rnd, n_exh, n_val, n_rst, n_sim)
    phases["generate"] = round(time.time() - t0, 1)
    scripts = {}
    deck = Deck(rnd)
    for i, (fam, b) in enumerate(chosen):
        sid = "%s%05d" % (dict(main="w", validate="v", restart="r")[fam], i)
        scripts[sid] = dict(id=sid, steps=concretise(trim(b), rnd, deck))
    for i, b in enumerate(sim):
        sid = "s%05d" % i
        scripts[sid] = dict(id=sid, steps=concretise(trim(b), rnd, deck))
    for d in directed_scripts():
        scripts[d["id"]] = dict(id=d["id"], steps=concretise(d["steps"], rnd, deck))
    order = sorted(scripts.values(), key=lambda s: (0 if any(x["a"] == "Tick" for x in s["steps"]) else 1, s["id"]))

    # 2. in parallel: TLC proves the prescriptive design; the behaviours run on the real code
    with ThreadPoolExecutor(max_workers=2) as ex:
        f_models = ex.submit(run_tlc_checks, quick, not quick)
        f_drv = ex.submit(vlib.run_driver_parallel, binary, dict(common, scripts=order), "scripts", 8, timeout=1500)
        t1 = time.time()
        results = f_drv.result()
        phases["driver"] = round(time.time() - t1, 1)
        checks = f_models.result()
        phases["driver+models"] = round(time.time() - t1, 1)
    models = []
    states = transitions = 0
    cover = {}
    for name, (cfg, r) in checks.items():
        states += r.distinct
        transitions += r.generated
        m = dict(cfg=cfg, states=r.distinct, transitions=r.generated, depth=r.depth, wall_s=round(r.wall, 1))
        if name == "live":
            m["property"] = "Converges (<>[]Synced) under FairSpec"
        models.append(m)
        for a, n in r.coverage.items():      # an action has to fire in at least one of the exhaustive runs
            cover[a] = max(cover.get(a, 0), n)
        # vlib's pattern misses actions that are called with arguments ("<Submit line .. (195 13 195 52)>: n:m")
        for mm in re.finditer(r"^<(\w+) line [^>]*>: (\d+):(\d+)", r.raw, re.M):
            cover[mm.group(1)] = max(cover.get(mm.group(1), 0), int(mm.group(3)))
    for cfg, g in gens:
        models.append(dict(cfg=cfg, states=g.distinct, transitions=g.generated, role="behaviour generation (descriptive model)",
                           wall_s=round(g.wall, 1)))
    if not quick:
        missing = [a for a in ("Submit", "Tick", "ServerReset", "ServerRestart", "ClientRestart", "PollFirst", "PollSecond", "ClientApply", "ClientValidate") if not cover.get(a)]
        if missing:
            raise Inconclusive("vacuity: actions never fire in the exhaustive run: %s" % missing)
        vacuity(models)

    # 3. self-test of the oracle binding: a sabotaged ADAPTER (timestamp read after the rows) must be caught
    st = vlib.run_driver(binary, dict(common, scripts=selftest_scripts(), sabotage="ts-after-rows"), timeout=300)
    caught = [r["id"] for r in st if any(v["kind"] == "converge-missing" and v["site"] == "other" for v in r["violations"])]
    selftest_ok = bool(st) and len(caught) == len(st)
    # ... and a sabotaged RESTART (the harness re-initialises the service row after the module has started, as a defective
    # start-up would) must be reported as a timestamp that goes back
    st2 = vlib.run_driver(binary, dict(common, scripts=restart_selftest_scripts(), sabotage="restart-reinit"), timeout=300)
    caught2 = [r["id"] for r in st2 if any(v["kind"] == "timestamp-not-increasing" for v in r["violations"])]
    selftest_ok = selftest_ok and bool(st2) and len(caught2) == len(st2)
    st, caught = st + st2, caught + caught2

    phases["vacuity+selftest"] = round(time.time() - t1 - phases["driver+models"], 1)
    # 4. verdicts from the real observables
    ninc, stats = judge(rep, prop, results, scripts, common)
    if len(results) != len(scripts):
        rep.inconclusive.append("%d of %d scripts produced no result" % (len(scripts) - len(results), len(scripts)))
    elif ninc <= max(2, len(results) // 50):
        rep.inconclusive = []

    if not selftest_ok:
        # never masks a violation seen on the real code (Report.finish gives violations precedence)
        rep.inconclusive.append("oracle self-test failed: a response whose timestamp was read after its rows was not reported as a "
                                "lost entry, or a service row re-initialised at a restart was not reported as a timestamp going back: %s" % json.dumps([{k: v for k, v in r.items() if k != "trace"} for r in st])[:800])

    # 5. recorded traces of the real code are validated by TLC against the specification
    good = [r for r in results if r.get("trace") and not r.get("error")]
    traces = [abstract_trace(r["trace"]) for r in good]
    t2 = time.time()
    # structural drift is recognised without TLC: the first statement of get is not the service row any more
    odd = set(i for i, t in enumerate(traces) if any(e["ev"] == "poll.first" and e.get("first") != "discovery_service" for e in t))
    if odd:
        rep.notes.append("DRIFT: in %d of %d executions the first SQL statement of the server's get was not the read of the "
                         "discovery_service row (e.g. script %s)" % (len(odd), len(traces), good[min(odd)]["id"]))
        if not rep.violations and len(odd) > len(traces) // 10:
            rep.inconclusive.append("the statement structure of sqlStore.get differs from the specification (spec/code drift)")
        keep = [i for i in range(len(traces)) if i not in odd]
        good, traces = [good[i] for i in keep], [traces[i] for i in keep]
    # a probe first: every rejected trace costs extra TLC runs, so do not feed thousands of them
    probe = min(len(traces), 40)
    tcfg = variant("Discovery.trace.cfg")
    acc, rej = vlib.validate_traces("TraceDiscovery", tcfg, traces[:probe], timeout=1500)
    if len(rej) > probe // 4 and not rep.violations:
        # does the code conform to the specification with a deviation repaired? (only asked when the real observables show no
        # violation: the answer is a hint for the maintainer of the configurations, and every variant costs TLC runs)
        cur = fixed_from_env()
        for a in ("FALSE", "TRUE"):
            for b in ("FALSE", "TRUE"):
                for c in ("TRUE", "FALSE"):
                    alt = dict(RefetchOnSeedChange=a, SupersedeMustOutlive=b, RestartKeepsService=c)
                    if alt == cur or len(rej) <= probe // 4:
                        continue
                    a2, r2 = vlib.validate_traces("TraceDiscovery", variant("Discovery.trace.cfg", alt), traces[:probe], timeout=1500)
                    if len(r2) < len(rej):
                        acc, rej, tcfg, best = a2, r2, variant("Discovery.trace.cfg", alt), alt
        if len(rej) <= probe // 4:
            rep.notes.append("NOTE: the recorded traces are behaviours of the specification with %s (not of the configured "
                             "descriptive variant): a deviation has been repaired in the code (or a repaired one is back), switch the constant in "
                             "spec/cfg/Discovery.{gen,gen.quick,sim,trace}.cfg" % json.dumps(best))
    if len(rej) <= probe // 4:
        a2, r2 = vlib.validate_traces("TraceDiscovery", tcfg, traces[probe:], timeout=1500)
        for x in r2:
            x["index"] += probe
        acc, rej = acc + a2, rej + r2
    else:
        rep.notes.append("DRIFT: %d of the first %d recorded traces are not behaviours of the specification; the remaining %d were "
                         "not validated" % (len(rej), probe, len(traces) - probe))
        if not rep.violations:
            rep.inconclusive.append("recorded traces are not behaviours of the specification (spec/code drift)")
    phases["trace_validation"] = round(time.time() - t2, 1)
    dbg = os.environ.get("VERIF_C16_DEBUG")
    if dbg:
        os.makedirs(dbg, exist_ok=True)
        for x in rej:
            r = good[x["index"]]
            json.dump(dict(script=scripts[r["id"]], result=r, rejected=x), open(os.path.join(dbg, r["id"] + ".json"), "w"), indent=1)
    for x in rej[:5]:
        rep.notes.append("%s: trace of %s rejected at event %s (%s)" % ("TRACE-VIOLATION" if x["kind"].startswith("invariant:") else "DRIFT",
                                                                        good[x["index"]]["id"], json.dumps(x["event"])[:300], x["kind"]))
    for x in rej:
        if x["kind"].startswith("invariant:"):
            sc = scripts[good[x["index"]]["id"]]
            rep.violation(dict(kind="trace-" + x["kind"], site="trace"), dict(property=prop, rejected=x, input=dict(common, scripts=[sc])))
    if len(rej) > max(3, len(traces) // 10) and not rep.violations:
        rep.inconclusive.append("%d of %d recorded traces are not behaviours of the specification (spec/code drift)" % (len(rej), len(traces)))

    samples = []
    for r in good:
        sc = scripts[r["id"]]
        if len(samples) < 2 and r.get("races") and len(sc["steps"]) >= 8:
            samples.append(dict(script=sc["steps"], real_trace=[{k: v for k, v in e.items() if k != "err"} for e in r["trace"][:24]]))
    cov = dict(states=states, transitions=transitions,
               traces_validated_against_impl=acc + len(rej), traces_accepted=acc, traces_rejected=len(rej),
               samples=samples or [next(iter(scripts.values()))["steps"]],
               models=models, behaviours_replayed_on_real_code=len(results),
               witness_behaviours_available=n_wit, witness_feature_buckets=n_buckets,
               simulated_behaviours=len(sim), oracle_evaluations=stats["checks"],
               submissions_accepted=stats["accepted"], submissions_rejected=stats["rejected"],
               client_wipes_on_seed_change=stats["wipes"], process_restarts_on_the_same_database=stats["restarts"],
               polls_with_a_commit_between_the_two_statements_of_get=stats["races"],
               steps_deferred_because_code_blocked=stats["deferred"], drift_notes=stats["drift"], inconclusive_scripts=ninc,
               oracle_selftest_scripts_caught=len(caught),
               known_findings_reproduced=sorted(rep.known), phases_s=phases, action_coverage=cover, exhaustive=False,
               concrete_defect_classes=len(set(REG_BAD) | set(RET_BAD)) + 4,
               rule="TLC exhausts the prescriptive Discovery model (invariants ListedOnlyVerified, OneLiveEntryPerSubject, TimestampsUnique, "
                    "TimestampCoversRows, SearchSound, Converged; action properties TimestampsStrictlyIncrease, RestartKeepsList, RetractionOnlyBySigner; liveness Converges under "
                    "FairSpec); behaviours of the DESCRIPTIVE model (one witness per distinct terminal state and per distinct non-converged "
                    "state, chosen by feature cover, plus -simulate walks) are replayed step by step on the real discovery.Module pair with "
                    "a gate between the two SQL statements of the server's get and restarts of either module on its database; the statement is evaluated on Get/Search/sqlite rows after "
                    "every step and after 3 final polls; every recorded real trace is validated by TLC against TraceDiscovery.tla")
    for d in _scratch:
        shutil.rmtree(d, ignore_errors=True)
    del _scratch[:]
    vlib.write_evidence(prop, tier, seed, "model_checking", cov, time.time() - t0, len(rep.violations), ASSUMPTIONS)
    return rep.finish()
