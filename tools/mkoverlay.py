#!/usr/bin/env python3
"""Writes harness/overlay.json: every shims/<pkg>/<name>.go.txt is added to /repo/<pkg>/<name>.go at build time.
Overlay only ADDS files (never replaces an existing one), so the working tree of /repo is what gets compiled."""
import json, os, sys
root = os.path.dirname(os.path.dirname(os.path.abspath(__file__)))
repo = os.environ.get("VERIF_REPO", "/repo")
rep = {}
for d, _, fs in os.walk(os.path.join(root, "shims")):
    for f in fs:
        if f.endswith(".go.txt"):
            rel = os.path.relpath(d, os.path.join(root, "shims"))
            dst = os.path.join(repo, rel, f[:-4])
            if os.path.exists(dst):
                sys.exit("shim would replace existing file " + dst)
            rep[dst] = os.path.join(d, f)
new = json.dumps({"Replace": rep}, indent=1, sort_keys=True)
dst = os.path.join(root, "harness", "overlay.json")
if not os.path.exists(dst) or open(dst).read() != new:
    open(dst + ".tmp", "w").write(new)
    os.replace(dst + ".tmp", dst)
