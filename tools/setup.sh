#!/bin/bash
# Regenerates the harness go.mod/go.sum from /repo (offline) and pre-compiles the drivers.
set -e
cd "$(dirname "$0")/.."
export GOFLAGS=-mod=mod GOPROXY=off GOSUMDB=off GOTOOLCHAIN=local
REPO=${VERIF_REPO:-/repo}
python3 - "$REPO" <<'PY'
import re,sys
repo=sys.argv[1]
src=open(repo+'/go.mod').read()
out=["module verifharness","",re.search(r'^go .*$',src,re.M).group(0),""]
for m in re.finditer(r'^require \((.*?)^\)',src,re.M|re.S):
    out.append("require ("+m.group(1)+")\n")
for m in re.finditer(r'^require [^(\n]+$',src,re.M):
    out.append(m.group(0))
for m in re.finditer(r'^replace .*$',src,re.M):
    out.append(m.group(0))
out.append("require github.com/nuts-foundation/nuts-node v0.0.0")
out.append("replace github.com/nuts-foundation/nuts-node => "+repo)
new="\n".join(out)+"\n"
import os
old=open('harness/go.mod').read() if os.path.exists('harness/go.mod') else None
if old!=new:
    open('harness/go.mod.tmp','w').write(new); os.replace('harness/go.mod.tmp','harness/go.mod')
PY
cmp -s "$REPO/go.sum" harness/go.sum || { cp "$REPO/go.sum" harness/go.sum.tmp && mv harness/go.sum.tmp harness/go.sum; }
python3 tools/mkoverlay.py
echo "setup ok"
