#!/bin/bash
# Confirms a seeded change in a scratch worktree: demo passes without, patch applies + builds, package tests pass, demo fails with.
# usage: tools/confirm_seeded.sh <seeded-id> ; writes seeded/<id>/confirm.log and prints a one-line summary
id=$1
export GOFLAGS=-mod=mod GOPROXY=off GOSUMDB=off GOTOOLCHAIN=local
S=/verif/seeded/$id
W=/tmp/confirm-$id-$$
git -C /repo worktree add --detach $W HEAD >/dev/null 2>&1 || { echo "$id: worktree failed"; exit 9; }
dir=$(grep -m1 -o 'DIR: [^ ]*' $S/demo_test.go.txt | cut -d' ' -f2)
cp $S/demo_test.go.txt $W/$dir/zz_seeded_demo_test.go
cd $W
name=$(grep -o 'func Test[A-Za-z0-9_]*' $dir/zz_seeded_demo_test.go | head -1 | cut -d' ' -f2)
{
echo "== demo WITHOUT change"; go test -count=1 -run "$name" ./$dir/ 2>&1 | tail -3; r1=${PIPESTATUS[0]}
P=$S/patch.diff; [ -f $S/patch.rebased.diff ] && P=$S/patch.rebased.diff; echo "== apply $(basename $P)"; git apply $P; echo "apply rc=$?"
echo "== build"; go build ./... 2>&1 | tail -3; rb=${PIPESTATUS[0]}
echo "== existing tests of $dir"; mv $dir/zz_seeded_demo_test.go /tmp/zz_$$.go; go test -count=1 ./$dir/... 2>&1 | tail -4; rt=${PIPESTATUS[0]}; mv /tmp/zz_$$.go $dir/zz_seeded_demo_test.go
echo "== demo WITH change"; go test -count=1 -run "$name" ./$dir/ 2>&1 | tail -5; r2=${PIPESTATUS[0]}
echo "SUMMARY $id demo_without=$r1 build=$rb tests=$rt demo_with=$r2"
} > $S/confirm.log 2>&1
cd /; git -C /repo worktree remove --force $W >/dev/null 2>&1
grep SUMMARY $S/confirm.log
