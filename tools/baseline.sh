#!/bin/bash
# Runs the pinned test suite of /repo (command of /root/.vp/BASELINE.json, hooks' build tag off) and compares the passing
# tests with the baseline's stable_pass list. usage: tools/baseline.sh [logfile]
log=${1:-/tmp/baseline.$$.json}
export GOPROXY=off GOSUMDB=off GOTOOLCHAIN=local
for m in $(cat /w/out/gomods.txt); do MF=$(cd /repo/$m && . /w/out/goenv.sh && gomodflag); (cd /repo/$m && go test $MF -json -vet=off -count=1 -timeout 25m ./...); done > $log 2>/dev/null
python3 - $log <<'PY'
import json,sys
base=json.load(open('/root/.vp/BASELINE.json'))
want=set(base['stable_pass'])
st={}
for l in open(sys.argv[1]):
    try: e=json.loads(l)
    except Exception: continue
    if e.get('Test') and e.get('Action') in ('pass','fail','skip'):
        st[e['Package']+'::'+e['Test']]=e['Action']
missing=[t for t in want if st.get(t)!='pass']
print("stable_pass=%d passing_now=%d not_passing=%d"%(len(want),sum(1 for t in want if st.get(t)=='pass'),len(missing)))
for t in sorted(missing)[:40]: print("  NOT PASSING:",t,st.get(t))
PY
