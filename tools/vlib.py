"""Shared machinery of the /verif checks: TLC runner, Go driver runner, evidence, known findings."""
import json, os, re, shutil, subprocess, sys, tempfile, time, hashlib

ROOT = os.path.dirname(os.path.dirname(os.path.abspath(__file__)))
REPO = os.environ.get("VERIF_REPO", "/repo")
SPEC = os.path.join(ROOT, "spec")
HARNESS = os.path.join(ROOT, "harness")
GOENV = dict(GOFLAGS="-mod=mod", GOPROXY="off", GOSUMDB="off", GOTOOLCHAIN="local")
NCPU = os.cpu_count() or 4


class Inconclusive(Exception):
    """Something prevented a verdict (build failure, TLC crash, dead driver): exit 2, never a violation."""


def scratch(prefix):
    base = os.environ.get("VERIF_SCRATCH", tempfile.gettempdir())
    return tempfile.mkdtemp(prefix="verif-" + prefix + "-", dir=base)


# --------------------------------------------------------------------------------------------- TLC

class TLCResult:
    def __init__(self):
        self.generated = 0
        self.distinct = 0
        self.depth = 0
        self.violation = None      # name of violated invariant/property
        self.error = None          # other error text
        self.printed = []          # JSON values printed with PrintT(ToJson(..))
        self.raw = ""
        self.wall = 0.0
        self.coverage = {}         # action -> count (when requested)
        self.cmd = ""

    @property
    def ok(self):
        return self.violation is None and self.error is None


def tlc(module, cfg, workers=None, simulate=None, depth=None, seed=None, timeout=900, env=None,
        coverage=False, extra=None, deque=False, keep=False, files=None):
    """Runs TLC on spec/<module>.tla with spec/cfg/<cfg> in a scratch copy of spec/.
    files: extra files (name -> content) to drop into the scratch dir (e.g. traces)."""
    work = scratch("tlc")
    res = TLCResult()
    try:
        for f in os.listdir(SPEC):
            p = os.path.join(SPEC, f)
            if os.path.isfile(p):
                shutil.copy(p, work)
        shutil.copy(os.path.join(SPEC, "cfg", cfg), os.path.join(work, "run.cfg"))
        for name, content in (files or {}).items():
            with open(os.path.join(work, name), "w") as fh:
                fh.write(content)
        cmd = ["tlc", "-workers", str(workers or NCPU), "-metadir", os.path.join(work, "md"), "-config", "run.cfg",
               "-noGenerateSpecTE"]
        if simulate:
            cmd += ["-simulate", simulate]
        if depth:
            cmd += ["-depth", str(depth)]
        if seed is not None:
            cmd += ["-seed", str(seed)]
        if coverage:
            cmd += ["-coverage", "1"]
        cmd += (extra or [])
        cmd.append(module + ".tla")
        e = dict(os.environ)
        e.update(env or {})
        if deque:
            e["JAVA_TOOL_OPTIONS"] = (e.get("JAVA_TOOL_OPTIONS", "") + " -Dtlc2.tool.queue.IStateQueue=StateDeque").strip()
        if "-Xmx" not in e.get("JAVA_TOOL_OPTIONS", ""):
            # the JVM default (25 % of the RAM per TLC) lets a handful of concurrent checks exhaust the machine
            e["JAVA_TOOL_OPTIONS"] = (e.get("JAVA_TOOL_OPTIONS", "") + " -Xmx" + os.environ.get("VERIF_TLC_XMX", "10g")).strip()
        res.cmd = " ".join(cmd)
        t0 = time.time()
        for attempt in (1, 2):
            try:
                p = subprocess.run(cmd, cwd=work, env=e, stdout=subprocess.PIPE, stderr=subprocess.STDOUT, timeout=timeout, text=True)
                out = p.stdout
                rc = p.returncode
            except subprocess.TimeoutExpired as ex:
                out = (ex.stdout or b"").decode() if isinstance(ex.stdout, bytes) else (ex.stdout or "")
                subprocess.run(["pkill", "-f", work], check=False)
                res.error = "TLC timeout after %ds" % timeout
                rc = -1
            if rc in (-9, 137) and attempt == 1:
                # killed from outside (out-of-memory killer while other checks run, a stray pkill): once more
                shutil.rmtree(os.path.join(work, "md"), ignore_errors=True)
                time.sleep(10)
                continue
            break
        res.wall = time.time() - t0
        res.raw = out
        for line in out.splitlines():
            if line.startswith('"[') or line.startswith('"{'):
                try:
                    res.printed.append(json.loads(json.loads(line)))
                except Exception:
                    pass
        m = re.search(r"(\d+) states generated, (\d+) distinct states found", out)
        if m:
            res.generated, res.distinct = int(m.group(1)), int(m.group(2))
        m = re.search(r"The depth of the complete state graph search is (\d+)", out)
        if m:
            res.depth = int(m.group(1))
        m = re.search(r"Error: Invariant (\S+) is violated", out)
        if m:
            res.violation = m.group(1)
        m = re.search(r"Error: Action property (\S+) is violated", out)
        if m:
            res.violation = m.group(1)
        m = re.search(r"Error: Temporal property (\S+) was violated", out)
        if m:
            res.violation = res.violation or m.group(1)
        if "Temporal properties were violated" in out:
            res.violation = res.violation or "temporal"
        if res.violation is None and res.error is None:
            if rc != 0 or "Error:" in out:
                # simulation mode ends by timeout/num; rc 0 expected. Anything else is an error.
                em = re.search(r"Error: (.*)", out)
                res.error = (em.group(1) if em else "TLC exit code %d" % rc)
        if coverage:
            for m in re.finditer(r"^<(\w+) [^>\n]*>: (\d+):(\d+)", out, re.M):
                res.coverage[m.group(1)] = res.coverage.get(m.group(1), 0) + int(m.group(3))
        return res
    finally:
        if not keep:
            shutil.rmtree(work, ignore_errors=True)


def dedupe_maximal(behaviours):
    """Removes behaviours that are a proper prefix of another one, and duplicates."""
    keyed = sorted({json.dumps(b, sort_keys=True): b for b in behaviours}.items())
    ser = [json.dumps(b, sort_keys=True)[:-1] for _, b in keyed]  # strip closing bracket -> prefix test on text
    out = []
    sset = sorted(ser)
    for i, s in enumerate(sset):
        if i + 1 < len(sset) and sset[i + 1].startswith(s + ",") :
            continue
        out.append(json.loads(s + "]"))
    return out


# ----------------------------------------------------------------------------------------- Go side

def setup_harness():
    subprocess.run([os.path.join(ROOT, "tools", "setup.sh")], check=True, stdout=subprocess.DEVNULL)
    subprocess.run([sys.executable, os.path.join(ROOT, "tools", "mkoverlay.py")], check=True)


def go_env():
    e = dict(os.environ)
    e.update(GOENV)
    return e


def build_driver(pkg, tags=None):
    """Compiles harness/drivers/<pkg> as a test binary against the CURRENT /repo tree; returns its path."""
    if not os.path.exists(os.path.join(HARNESS, "go.mod")) or not os.path.exists(os.path.join(HARNESS, "overlay.json")):
        setup_harness()
    else:
        # keep go.mod/go.sum in sync with the repo (cheap)
        setup_harness()
    race = os.environ.get("VERIF_RACE") == "1"  # audit mode: drivers built with the Go race detector (slow; exit 66 on a race)
    out = os.path.join(HARNESS, "bin", pkg + (".race.test" if race else ".test"))
    os.makedirs(os.path.dirname(out), exist_ok=True)
    cmd = ["go", "test", "-c", "-vet=off", "-overlay", "overlay.json", "-o", out] + (["-race"] if race else [])
    if tags:
        cmd += ["-tags", tags]
    cmd.append("./drivers/" + pkg)
    p = subprocess.run(cmd, cwd=HARNESS, env=go_env(), stdout=subprocess.PIPE, stderr=subprocess.STDOUT, text=True)
    if p.returncode != 0:
        raise Inconclusive("driver %s does not build against the current tree:\n%s" % (pkg, p.stdout[-4000:]))
    return out


def run_driver(binary, inp, timeout=420, env=None, test="TestDriver"):
    """Runs a driver binary on an input object; returns the list of result objects (ndjson)."""
    work = scratch("drv")
    try:
        ip, op = os.path.join(work, "in.json"), os.path.join(work, "out.ndjson")
        with open(ip, "w") as fh:
            json.dump(inp, fh)
        e = go_env()
        e.update({"VERIF_IN": ip, "VERIF_OUT": op, "TMPDIR": work})
        e.update(env or {})
        try:
            p = subprocess.run([binary, "-test.run", "^" + test + "$", "-test.timeout", "%ds" % timeout, "-test.count=1"],
                               cwd=work, env=e, stdout=subprocess.PIPE, stderr=subprocess.STDOUT, text=True, timeout=timeout + 30)
        except subprocess.TimeoutExpired:
            raise Inconclusive("driver timed out")
        results = []
        if os.path.exists(op):
            for line in open(op):
                line = line.strip()
                if line:
                    try:
                        results.append(json.loads(line))
                    except ValueError:
                        pass  # truncated last line of a driver that was stopped
        if p.returncode != 0:
            out = p.stdout or ""
            first = re.search(r"^(panic:|fatal error:|--- FAIL|FAIL).*$", out, re.M)
            head = out[max(0, first.start() - 200): first.start() + 2500] if first else out[:2500]
            raise Inconclusive("driver failed (rc=%d, %d results written):\n%s\n[...]\n%s" % (p.returncode, len(results), head, out[-3000:]))
        return results
    finally:
        shutil.rmtree(work, ignore_errors=True)


def run_driver_parallel(binary, inp, key="scripts", shards=None, **kw):
    """Splits inp[key] into shards and runs them in parallel processes."""
    from concurrent.futures import ThreadPoolExecutor
    items = inp[key]
    shards = min(shards or max(1, NCPU // 2), max(1, len(items)))
    parts = [items[i::shards] for i in range(shards)]
    def one(part):
        d = dict(inp)
        d[key] = part
        return run_driver(binary, d, **kw)
    with ThreadPoolExecutor(max_workers=shards) as ex:
        outs = list(ex.map(one, parts))
    return [r for o in outs for r in o]


# --------------------------------------------------------------------------------- findings/evidence

def load_known():
    p = os.path.join(ROOT, "known_findings.json")
    if not os.path.exists(p):
        return []
    return json.load(open(p)).get("findings", [])


def match_known(prop, sig):
    """sig: dict describing the violation (kind, site, ...). A finding matches if all its 'match' keys are equal."""
    for f in load_known():
        if f.get("property") != prop or f.get("status") != "open":
            continue
        m = f.get("match", {})
        if all(str(sig.get(k)) == str(v) for k, v in m.items()):
            return f
    return None


def write_evidence(prop, tier, seed, level, coverage, wall, violations, assumptions):
    os.makedirs(os.path.join(ROOT, "evidence"), exist_ok=True)
    ev = {"property_id": prop, "tier": tier, "seed": int(seed), "level": level, "coverage": coverage,
          "assumptions": assumptions, "wall_s": round(wall, 2), "violations": int(violations)}
    with open(os.path.join(ROOT, "evidence", prop + ".json"), "w") as fh:
        json.dump(ev, fh, indent=1, sort_keys=True)
    return ev


def save_replay(prop, name, obj):
    d = os.path.join(ROOT, "replays")
    os.makedirs(d, exist_ok=True)
    h = hashlib.sha1(json.dumps(obj, sort_keys=True).encode()).hexdigest()[:10]
    p = os.path.join(d, "%s-%s-%s.json" % (prop, name, h))
    with open(p, "w") as fh:
        json.dump(obj, fh, indent=1)
    return p


class Report:
    """Collects verdicts of one check run and produces the exit code."""
    def __init__(self, prop):
        self.prop = prop
        self.violations = []   # (sig, replay_path)
        self.known = {}        # finding id -> text
        self.inconclusive = []
        self.notes = []

    def violation(self, sig, replay_obj):
        f = match_known(self.prop, sig)
        if f:
            self.known[f["id"]] = f["title"]
            return
        k = json.dumps(sig, sort_keys=True)
        n = sum(1 for s2, _ in self.violations if json.dumps(s2, sort_keys=True) == k)
        if n >= 2:   # keep at most two replays per distinct signature
            self.violations.append((sig, self.violations[[json.dumps(s2, sort_keys=True) for s2, _ in self.violations].index(k)][1]))
            return
        path = save_replay(self.prop, str(sig.get("kind", "v")), replay_obj)
        self.violations.append((sig, path))

    def finish(self):
        for fid, title in sorted(self.known.items()):
            print("KNOWN-FINDING: property=%s %s %s" % (self.prop, fid, title))
        for n in self.notes:
            print(n)
        if self.violations:
            seen = set()
            for sig, path in self.violations:
                k = json.dumps(sig, sort_keys=True)
                if k in seen:
                    continue
                seen.add(k)
                print("VIOLATION property=%s replay=%s  %s" % (self.prop, path, json.dumps(sig, sort_keys=True)[:600]))
            return 1
        if self.inconclusive:
            for i in self.inconclusive[:10]:
                print("INCONCLUSIVE: " + i)
            return 2
        print("OK property=%s" % self.prop)
        return 0


# ------------------------------------------------------------------------------ trace validation

def validate_traces(module, cfg, traces, timeout=600, batch=400, max_rejections=12):
    """Validates recorded traces (lists of event dicts) against a Trace spec. Traces are concatenated with
    {"ev":"reset"} separators and checked by TLC batch-wise (one JVM start per batch).
    Returns (accepted, rejected:list of dict(index, at, event, kind)) where kind is 'invariant:<name>' when a
    property invariant failed on the reconstructed state, or 'no-matching-action' (spec/code drift)."""
    accepted, rejected = 0, []
    i = 0
    while i < len(traces):
        if len(rejected) >= max_rejections:
            break  # enough to report; the remaining traces are not validated (and not counted as accepted)
        chunk = traces[i:i + batch]
        acc, rej = _validate_chunk(module, cfg, chunk, timeout, max_rejections - len(rejected))
        accepted += acc
        for r in rej:
            r["index"] += i
        rejected += rej
        i += batch
    return accepted, rejected


def _validate_chunk(module, cfg, chunk, timeout, budget=12):
    lines, starts = [], []
    for t in chunk:
        starts.append(len(lines) + 1)
        lines.append(json.dumps({"ev": "reset"}))
        for e in t:
            lines.append(json.dumps(e))
    work = scratch("trace")
    try:
        tf = os.path.join(work, "trace.ndjson")
        with open(tf, "w") as fh:
            fh.write("\n".join(lines) + "\n")
        r = tlc(module, cfg, workers=1, timeout=timeout, env={"VERIF_TRACE": tf}, deque=True)
        if r.error and "timeout" in r.error:
            raise Inconclusive("trace validation: " + r.error)
        if r.violation is None and "TRACE-REJECTED-AT" not in r.raw and r.error is None:
            return len(chunk), []
        # locate the failing trace
        kind, at = None, None
        m = re.search(r"TRACE-REJECTED-AT\D+(\d+)", r.raw)
        if r.violation and r.violation not in ("Progress",):
            kind = "invariant:" + r.violation
            # the state number of the violation = number of consumed lines; use the high-water mark printed in the trace
            mm = re.findall(r"^/\\ l = (\d+)", r.raw, re.M)
            at = int(mm[-1]) - 1 if mm else None
        elif m:
            kind, at = "no-matching-action", int(m.group(1))
        else:
            raise Inconclusive("trace validation failed unexpectedly: %s\n%s" % (r.error, r.raw[-2000:]))
        if at is None:
            at = 1
        # which trace of the chunk?
        idx = max(j for j, s in enumerate(starts) if s <= at)
        ev = json.loads(lines[at - 1]) if 0 < at <= len(lines) else None
        rej = [dict(index=idx, at=at - starts[idx], event=ev, kind=kind)]
        # validate the traces before and after the failing one separately
        # the traces before the failing one were consumed without objection in this very run
        before, after = chunk[:idx], chunk[idx + 1:]
        acc = len(before)
        if after and budget > 1:
            a3, r3 = _validate_chunk(module, cfg, after, timeout, budget - 1)
            acc += a3
            for x in r3:
                x["index"] += idx + 1
            rej += r3
        return acc, rej
    finally:
        shutil.rmtree(work, ignore_errors=True)
