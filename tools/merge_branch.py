#!/usr/bin/env python3
"""usage: tools/merge_branch.py <branch> [ID=hash ...]
Merges a builder's branch of /verif into main. known_findings.json (both sides append at the end, which always conflicts) is
merged by entry id: entries the branch added or changed relative to the merge base are applied to main's file.
ID=hash pairs replace the placeholders COMMIT_<ID> in the applied entries."""
import json, subprocess, sys
br = sys.argv[1]
subst = dict(a.split("=", 1) for a in sys.argv[2:])
sh = lambda *a: subprocess.run(a, cwd="/verif", capture_output=True, text=True)
dirty = [l for l in sh("git", "status", "--porcelain", "--untracked-files=no").stdout.split("\n") if l.strip() and "evidence/" not in l]
if dirty:
    sys.exit("commit your own changes first: %s" % dirty)
base = sh("git", "merge-base", "HEAD", br).stdout.strip()
load = lambda rev: json.loads(sh("git", "show", rev + ":known_findings.json").stdout)
kb, kt, ko = load(base), load(br), load("HEAD")
bb = {f["id"]: f for f in kb["findings"]}
changed = [f for f in kt["findings"] if bb.get(f["id"]) != f]
r = sh("git", "merge", "--no-commit", "--no-ff", br)
sh("git", "checkout", "HEAD", "--", "known_findings.json")
bad = [l for l in sh("git", "diff", "--name-only", "--diff-filter=U").stdout.split() if l]
if bad:
    print("CONFLICTS LEFT in: %s -- resolve them by hand, `git add` them; the known findings ARE applied below" % bad)
ids = {f["id"]: i for i, f in enumerate(ko["findings"])}
for f in changed:
    txt = json.dumps(f)
    for k, v in subst.items():
        txt = txt.replace("COMMIT_" + k, v)
    f = json.loads(txt)
    if f["id"] in ids:
        ko["findings"][ids[f["id"]]] = f
    else:
        ko["findings"].append(f)
json.dump(ko, open("/verif/known_findings.json", "w"), indent=1)
sh("git", "checkout", "HEAD", "--", "evidence")
sh("git", "add", "-A")
print("merged %s: %d finding entries applied; review and commit" % (br, len(changed)))
