#!/bin/bash
# usage: tools/eval_incoming.sh <cXX> <PROP> : copies /tmp/seedwork/<cXX>/out (or backup) to seeded_incoming and evaluates m1, m2
c=$1; P=$2
mkdir -p /verif/seeded_incoming/$c
for d in /tmp/seedwork/$c/out /tmp/seedout_$c; do if [ -f $d/m1.diff ]; then cp -r $d/* /verif/seeded_incoming/$c/; break; fi; done
for m in m1 m2; do echo "== $P $m: $(python3 -c "import json;print(json.load(open('/verif/seeded_incoming/$c/$m.json'))['summary'][:150])")"; /verif/tools/trymutant.sh /verif/seeded_incoming/$c/$m.diff $P 2>&1 | grep -v "DRIFT\|KNOWN\|NOTE" | cut -c1-250 | head -4; done
