#!/bin/bash
# usage: tools/eval_incoming.sh <incoming-dir-name> <PROP>   -- evaluates seeded_incoming/<dir>/m1.diff and m2.diff with the isolated runner
d=/verif/seeded_incoming/$1; prop=$2
for m in m1 m2; do
  ( echo "== $1 $m: $(jq -r .summary $d/$m.json | cut -c1-160)"; /verif/tools/trymutant2.sh $d/$m.diff $prop 2>&1 | grep -v "^KNOWN\|^DRIFT" | head -6 ) > /tmp/inc.$1.$m.txt 2>&1 &
done
wait
cat /tmp/inc.$1.m1.txt /tmp/inc.$1.m2.txt; rm -f /tmp/inc.$1.m1.txt /tmp/inc.$1.m2.txt
