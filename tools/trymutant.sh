#!/bin/bash
# usage: tools/trymutant.sh <patch.diff> <PROP> [tier] -- applies the patch to /repo, runs the check, reverts. Prints the verdict.
set -u
patch=$1; prop=$2; tier=${3:-quick}
cd /repo || exit 9
if ! git diff --quiet; then echo "repo not clean"; exit 9; fi
git apply "$patch" || { echo "PATCH DOES NOT APPLY"; exit 9; }
cd /verif
timeout 1500 ./check "$prop" --tier "$tier" > /tmp/trymutant.$$.log 2>&1
rc=$?
git -C /repo checkout -- .
echo "rc=$rc"; grep -E "^(VIOLATION|KNOWN-FINDING|INCONCLUSIVE|OK|DRIFT)" /tmp/trymutant.$$.log | cut -c1-300 | head -12
rm -f /tmp/trymutant.$$.log
