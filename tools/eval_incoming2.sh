#!/bin/bash
# usage: tools/eval_incoming2.sh <incoming-dir-name> <PROP> [tier] [seed]
# evaluates seeded_incoming/<dir>/m1.diff and m2.diff with the isolated runner; keeps each verdict in seeded_incoming/<dir>/mN.result.txt
d=/verif/seeded_incoming/$1; prop=$2; tier=${3:-quick}; seed=${4:-1}
for m in m1 m2; do
  [ -f $d/$m.diff ] || continue
  ( /verif/tools/trymutant2.sh $d/$m.diff $prop $tier $seed 2>&1 | grep -v "^DRIFT" | cut -c1-400 | head -14 > $d/$m.result.txt ) &
done
wait
for m in m1 m2; do [ -f $d/$m.result.txt ] && { echo "== $1 $m: $(jq -r .summary $d/$m.json | cut -c1-200)"; grep -v "^KNOWN" $d/$m.result.txt | head -5; }; done
